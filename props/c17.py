"""C17 -- header fillers write exactly the schema's identifying values (and nothing else)."""
import hgen, msggen, c02
from hgen import P, M
from msggen import SZ, pn, idx


def const_table(fields, values, be):
    """list of (rel offset, byte value) for constant-valued members"""
    out = []
    for name, v in values.items():
        if name not in fields: continue
        off, prim = fields[name]; size = SZ[prim]
        for k in range(size):
            sh = (size - 1 - k) if be else k
            out.append((off + k, (v >> (8 * sh)) & 255))
    return out


def cpp(g):
    o = ["W int64_t fillmsg_%s(char* p, size_t n){ %s auto h = sbepp::fill_message_header(m); return (const char*)sbepp::addressof(h) - p; }" % (g.M, g.view())]
    for (path, gr, d) in g.groups:
        ge = g.nav(path[:-1]) + ".%s()" % gr.name
        o.append("W int64_t fillgrp_%s_%s(char* p, size_t n, IDX, uint64_t num){ %s auto g = %s; auto h = sbepp::fill_group_header(g, (typename decltype(g)::size_type)num); return (const char*)sbepp::addressof(h) - p; }" % (g.M, pn(path), g.view(), ge))
    return "\n".join(o) + "\n"


def arms(g, sch):
    out = []
    be = g.be
    vals = {"blockLength": g.msg.block_length, "templateId": g.msg.id, "schemaId": sch.id, "version": sch.version,
            "numGroups": len(g.msg.groups), "numVarDataFields": len(g.msg.data)}
    tab = const_table(g.hdr, vals, be)
    code = "    static const int pos[%d] = {%s}; static const unsigned char val[%d] = {%s}; i64 ho = -1;\n" % (len(tab), ",".join(str(t[0]) for t in tab), len(tab), ",".join(str(t[1]) for t in tab))
    code += "    CALL(ho = fillmsg_%s(buf, N));\n" % g.M
    code += '    VASSERT(!verif_aborted, "no handler"); VASSERT(ho == 0, "fill_message_header returns a view of the message header");\n'
    code += "    for (unsigned i = 0; i < N; i++) { int hit = -1; for (unsigned k = 0; k < %d; k++) if (pos[k] == (int)i) hit = k;\n" % len(tab)
    code += '      if (hit >= 0) VASSERT(buf[i] == val[hit], "schemaId/templateId/version/blockLength (+numGroups/numVarDataFields) == the values the schema defines, in the schema byte order");\n'
    code += '      else VASSERT(buf[i] == old[i], "every byte that is not one of those header members (extra members, gaps, the rest of the buffer) is unchanged"); }\n'
    out.append(("fillmsg", code))
    for (path, gr, d) in g.groups:
        n = pn(path); ix = idx(d); hf = M.header_fields(gr.dim)
        vals = {"blockLength": gr.block_length, "numGroups": len(gr.groups), "numVarDataFields": len(gr.data)}
        tab = const_table(hf, vals, be)
        on, pnn = hf["numInGroup"]; sn = SZ[pnn]
        guard = g.group_guard(path)
        dsz = gr.dim.size
        kind = [-1] * dsz; cval = [0] * dsz; nidx = [0] * dsz
        for (o_, v_) in tab: kind[o_] = 0; cval[o_] = v_
        for k in range(sn): kind[on + k] = 1; nidx[on + k] = k
        code = "    VASSUME(%s); IN(u64, num); VASSUME(num <= 0x%xULL); u64 hp = r.%s_hdr%s; i64 ho = -1;\n" % (guard, (1 << (8 * sn)) - 1, n, ix)
        code += "    static const signed char kind[%d] = {%s}; static const unsigned char cval[%d] = {%s}, nidx[%d] = {%s};\n" % (
            dsz, ",".join(map(str, kind)), dsz, ",".join(map(str, cval)), dsz, ",".join(map(str, nidx)))
        code += "    CALL(ho = fillgrp_%s_%s(buf, N, i0, i1, num));\n" % (g.M, n)
        code += '    VASSERT(!verif_aborted, "no handler"); VASSERT(ho == (i64)hp, "fill_group_header returns a view of that group header");\n'
        code += "    for (unsigned i = 0; i < N; i++) { u64 rel = (u64)i - hp; int kd = (i >= hp && rel < %d) ? kind[rel] : -1;\n" % dsz
        code += '      if (kd == 0) VASSERT(buf[i] == cval[rel], "group blockLength (+numGroups/numVarDataFields of that level) == schema values");\n'
        code += '      else if (kd == 1) VASSERT(buf[i] == ref_byte(num, %d, %d, nidx[rel]), "numInGroup == the argument");\n' % (sn, be)
        code += '      else VASSERT(buf[i] == old[i], "no byte outside the filled header members is touched"); }\n'
        out.append(("fillgrp_" + n, code))
    return out


def harness(u, g, arms_, N, E, D):
    body = g.prologue(N, E, D) + "  SELECT(which);\n  switch (which) {\n"
    for k, (label, code) in enumerate(arms_):
        body += "  case %d: { /* %s */\n%s    break; }\n" % (k, label, code)
    body += "  default: VASSUME(0);\n  }\n"
    return hgen.harness([u], body, pre=g.ref_c())


def build(ctx):
    hs = []
    G, D = 2, 1
    ctx.assumptions = ["arbitrary prior image; geometry in front of the filled header within bounds (numInGroup <= %d, data length <= %d, wire blockLength == compiled); numInGroup argument over the whole range of its type" % (G, D),
                       "header layouts enumerated: schemas/vs_hdr_a..e, g, h, i, j (j: groups without fields but with an explicit blockLength; counters in only one of message header / group dimension, ref-typed numGroups/numVarDataFields counters, reordered members, custom offsets + gaps + extra members, mixed integer widths, numGroups/numVarDataFields, ref-typed members) and vs_msg_le/be"]
    fam = ["vs_hdr_%s.xml" % k for k in "abcdeghij"]
    plan = [(x, "17") for x in fam] + [("vs_hdr_b.xml", "20"), ("vs_msg_be.xml", "17"), ("vs_msg2_le.xml", "17")] if ctx.quick else [(x, s) for s in ("11", "14", "17", "20") for x in fam + ["vs_msg_le.xml", "vs_msg_be.xml", "vs_msg2_le.xml", "vs_msg2_be.xml"]]
    plan = hgen.plan_env(plan, 2)
    for (xml, std) in plan:
        path = ctx.schema(xml)
        rc, out, inc = ctx.slot.generate(path)
        if rc != 0:
            import os
            d = os.path.join(hgen.P.VERIF, "replays", "C17", "sbeppc_" + xml.replace(".xml", "")); os.makedirs(d, exist_ok=True)
            open(os.path.join(d, "sbeppc_output.txt"), "w").write(out)
            open(os.path.join(d, "replay.sh"), "w").write("#!/bin/sh\ncat %s/sbeppc_output.txt; exit 1\n" % d)
            ctx.pre_violations.append(("sbeppc (rebuilt from /repo) rejects or crashes on header layout %s, rc=%d: %s -- decided by running sbeppc, not a solver verdict" % (xml, rc, out[-300:].replace("\n", " ")), d))
            ctx.observations.append({"schema": xml, "decided_by": "pipeline precondition (not a solver verdict)", "rc": rc})
            continue
        sch = M.Schema(path)
        for msg in sch.messages:
            if ctx.quick and msg.name in c02.QUICK_SKIP: continue
            g = msggen.MG(sch, msg, G)
            u = ctx.try_lower("c17_%s_%s" % (sch.ns, msg.name), g.cpp_prelude() + cpp(g), std=std, mode="checked", incs=[inc])
            if "error" in u:
                import os, shutil
                d = os.path.join(hgen.P.VERIF, "replays", "C17", "compile_%s_%s_cxx%s" % (sch.ns, msg.name, std)); os.makedirs(d, exist_ok=True)
                open(os.path.join(d, "compiler_output.txt"), "w").write(u.get("stderr", u["error"]))
                open(os.path.join(d, "replay.sh"), "w").write("#!/bin/sh\ncat %s/compiler_output.txt; exit 1\n" % d)
                ctx.pre_violations.append(("generated header fillers of %s.%s do not compile (c++%s): %s" % (sch.ns, msg.name, std, u.get("stderr", u["error"])[:300]), d))
                continue
            N = g.max_size(0, D) + 1
            for a in arms(g, sch):
                hs.append(P.Harness("%s_%s_%s_cxx%s" % (sch.ns, msg.name, a[0], std), harness(u, g, [a], N, 0, D), [u], unwind=G + 2,
                                    cap=ctx.q(600, 1200), backends=["minisat", "kissat"], extra_flags=["--no-standard-checks"],
                                    meta={"big_loops": ["ref_walk_%s.%d" % (msg.name, x) for x in range(16)]},
                                    desc="%s.%s: %s writes exactly the schema constants (and the numInGroup argument) at the model's member offsets; frame elsewhere; returns the header view" % (sch.ns, msg.name, a[0]),
                                    bounds={"N": N, "G": G, "D": D, "std": "c++" + std, "byte_order": "BE" if sch.be else "LE"}))
    # ---- block lengths beyond 16 bits (vs_hdr_f, both byte orders are pointless here: the point is the width of the written value); handcrafted: the blocks themselves are not in the buffer
    for std in (("17",) if ctx.quick else ("11", "17", "20")):
        path = ctx.schema("vs_hdr_f.xml")
        rc, out, inc = ctx.slot.generate(path)
        if rc != 0: raise P.EngineError("sbeppc rejects vs_hdr_f.xml: %s" % out[-400:])
        sch = M.Schema(path)
        for msg in sch.messages:
            g = msggen.MG(sch, msg, 1)
            u = ctx.lower("c17_%s_%s" % (sch.ns, msg.name), g.cpp_prelude() + cpp(g), std=std, mode="checked", incs=[inc])
            al = arms(g, sch)
            if msg.name == "big":
                N = g.HDR + 3
                body = "  enum { N = %d };\n  IN_BYTES(buf, N); unsigned char old[N]; verif_copy(old, buf, N);\n  {\n%s  }\n" % (N, al[0][1])
                label = "fillmsg"
            else:
                gr = msg.groups[0]; hf = M.header_fields(gr.dim); hp = g.HDR + msg.block_length; N = hp + gr.dim.size + 2
                tab = const_table(hf, {"blockLength": gr.block_length}, g.be); on, pnn = hf["numInGroup"]
                obl = g.hdr["blockLength"][0]
                body = "  enum { N = %d };\n  IN_BYTES(buf, N);\n" % N
                body += "".join("  buf[%d] = %d;\n" % (obl + k, (msg.block_length >> (8 * k)) & 255) for k in range(SZ[g.hdr["blockLength"][1]]))
                body += "  unsigned char old[N]; verif_copy(old, buf, N);\n  IN(u64, num); VASSUME(num <= 255); i64 ho = -1;\n"
                body += "  CALL(ho = fillgrp_%s_%s(buf, N, 0, 0, num));\n" % (g.M, pn((gr.name,)))
                body += '  VASSERT(!verif_aborted, "no handler"); VASSERT(ho == %d, "fill_group_header returns a view of that group header");\n' % hp
                exp = {hp + o_: v_ for (o_, v_) in tab}
                body += "  for (unsigned i = 0; i < N; i++) {\n"
                for pos_, v_ in sorted(exp.items()):
                    body += '    if (i == %d) { VASSERT(buf[i] == %d, "group blockLength == the schema value (all bytes of a block length >= 2^16)"); continue; }\n' % (pos_, v_)
                body += '    if (i == %d) { VASSERT(buf[i] == (unsigned char)num, "numInGroup == the argument"); continue; }\n' % (hp + on)
                body += '    VASSERT(buf[i] == old[i], "no byte outside the filled header members is touched");\n  }\n'
                label = "fillgrp_gb"
            hs.append(P.Harness("%s_%s_%s_bigblock_cxx%s" % (sch.ns, msg.name, label, std), hgen.harness([u], body), [u], unwind=4, cap=ctx.q(120, 600), extra_flags=["--no-standard-checks"],
                                desc="%s.%s: %s with a blockLength >= 2^16 (uint32 blockLength member): every byte of the value is written" % (sch.ns, msg.name, label),
                                bounds={"blockLength": msg.block_length if msg.name == "big" else msg.groups[0].block_length, "std": "c++" + std}))
    return hs
