"""small helpers shared by the harness generators"""
import os, sys
sys.path.insert(0, os.path.join(os.path.dirname(os.path.dirname(os.path.abspath(__file__))), "engine"))
import pipeline as P
import sbemodel as M

W_PRELUDE = r'''
#include <cstdint>
#include <cstddef>
#include <cstring>
#include <iterator>
#include <type_traits>
#define W extern "C" __attribute__((noinline))
'''


# "constant-evaluation model": the branches that only constant evaluation takes are lowered as ordinary code -- sbepp's own detail::is_constant_evaluated() through hook H3,
# libstdc++'s std::is_constant_evaluated() (element-wise loops instead of memmove/memchr/... in std::copy, copy_backward, fill, find, equal ...) by defining the builtin away.
# It is a model of WHAT the constant evaluator executes, not of the evaluator itself (which additionally rejects undefined behaviour).
CE_FLAGS = ("-DSBEPP_VERIF_CONSTANT_EVALUATED", "-D__builtin_is_constant_evaluated()=true")


def harness(units, body, pre=""):
    inc = "".join('#include "%s"\n' % u["h"] for u in units)
    return '#include "harness_rt.h"\n' + inc + pre + "\nvoid harness(void) {\n" + body + "\n#ifdef WITNESS\n  WITNESS_POINT();\n#endif\n}\n"


def stds(ctx, quick=("17", "20"), thorough=("11", "14", "17", "20")):
    return quick if ctx.quick else thorough


def gen_headers(ctx, xml_name):
    """run the rebuilt sbeppc on a verification schema; returns (schema model, include dir) or records a precondition violation"""
    path = ctx.schema(xml_name)
    rc, out, inc = ctx.slot.generate(path)
    if rc != 0:
        raise P.EngineError("sbeppc rejected verification schema %s (rc=%d): %s" % (xml_name, rc, out[-800:]))
    return M.Schema(path), inc


def plan_env(plan, n=3):
    """VERIF_PLAN="schema.xml:std[:mode],..." replaces a check's (schema, std, mode) plan -- development aid, never set by the registered commands"""
    v = os.environ.get("VERIF_PLAN")
    if not v: return plan
    out = []
    for item in v.split(","):
        f = item.split(":")
        f += ["17", "checked"][len(f) - 1:]
        out.append(tuple(f[:n]))
    return out
