"""Model-driven generator for one message of a verification schema:
 * C reference walker (geometry from the WIRE values, byte-level, independent of the library)
 * C++ wrapper TU (extern "C" entry points over the sbeppc-generated view classes)
 * accessor descriptors used by the per-property harness generators
"""
import hgen
from hgen import M

SZ = {k: v[0] for k, v in M.PRIM.items()}


def pn(path):
    return "_".join(path)


def idx(d, upto=None):
    return "".join("[i%d]" % k for k in range(d if upto is None else upto))


CPP_COMMON = r'''
template<int N> struct rank : rank<N - 1> {}; template<> struct rank<0> {};
template<class V> static inline uint64_t bits_of(V v){ typename std::conditional<sizeof(V)==1, uint8_t, typename std::conditional<sizeof(V)==2, uint16_t, typename std::conditional<sizeof(V)==4, uint32_t, uint64_t>::type>::type>::type u; std::memcpy(&u, &v, sizeof(V)); return u; }
template<class V> static inline V val_of(uint64_t b){ V v; std::memcpy(&v, &b, sizeof(V)); return v; }
template<class T> static inline auto tb(T v, rank<3>) -> decltype(bits_of(v.value())) { return bits_of(v.value()); }
template<class T> static inline auto tb(T v, rank<2>) -> decltype(bits_of(*v)) { return bits_of(*v); }
template<class T> static inline auto tb(T v, rank<1>) -> typename std::enable_if<std::is_enum<T>::value, uint64_t>::type { return bits_of(static_cast<typename std::underlying_type<T>::type>(v)); }
template<class T> static inline uint64_t tb(T v, rank<0>) { return bits_of(v); }
template<class T> static inline uint64_t to_bits(T v){ return tb(v, rank<3>{}); }
template<class T> static inline auto fb(uint64_t b, rank<3>) -> decltype(std::declval<T>().value(), T{}) { return T{val_of<typename T::value_type>(b)}; }
template<class T> static inline auto fb(uint64_t b, rank<2>) -> decltype(*std::declval<const T&>(), T{}) { return T{val_of<typename std::decay<decltype(*std::declval<const T&>())>::type>(b)}; }
template<class T> static inline auto fb(uint64_t b, rank<1>) -> typename std::enable_if<std::is_enum<T>::value, T>::type { return static_cast<T>(val_of<typename std::underlying_type<T>::type>(b)); }
template<class T> static inline T fb(uint64_t b, rank<0>) { return val_of<T>(b); }
template<class T> static inline T from_bits(uint64_t b){ return fb<T>(b, rank<3>{}); }
template<class G> static inline auto at_impl(G g, uint32_t i, std::random_access_iterator_tag) -> decltype(*g.begin()) { return g[(typename G::size_type)i]; }
template<class G> static inline auto at_impl(G g, uint32_t i, std::forward_iterator_tag) -> decltype(*g.begin()) { auto it = g.begin(); for(uint32_t k = 0; k < i; k++) ++it; return *it; }
template<class G> static inline auto at(G g, uint32_t i) -> decltype(*g.begin()) { return at_impl(g, i, typename std::iterator_traits<decltype(g.begin())>::iterator_category{}); }
#define IDX uint32_t i0, uint32_t i1
'''


class Level:
    def __init__(s, path, node, depth):
        s.path, s.node, s.depth = path, node, depth
        s.leaves = M.leaves(node.fields)
        s.comps = M.composites(node.fields)
    @property
    def name(s): return pn(s.path) if s.path else "root"


class MG:
    def __init__(s, sch, msg, G=2):
        s.sch, s.msg, s.G = sch, msg, G
        s.ns, s.M, s.be = sch.ns, msg.name, 1 if sch.be else 0
        s.HDR = sch.header.size
        s.hdr = M.header_fields(sch.header)
        s.levels, s.groups, s.datas = [], [], []
        s._collect(msg, (), 0)

    def _collect(s, node, path, d):
        s.levels.append(Level(path, node, d))
        for g in node.groups:
            s.groups.append((path + (g.name,), g, d))
            s._collect(g, path + (g.name,), d + 1)
        for dt in node.data:
            s.datas.append((path, dt, d))

    # ------------------------------------------------------------------ reference walker (C)
    def ref_c(s):
        G, Mn = s.G, s.M
        o = ["#ifndef REF_SHRINK_DEFINED\n#define REF_SHRINK_DEFINED\nstatic u64 ref_shrink = 0;   /* C10: wire block lengths may be SHORTER than the compiled ones by up to this many bytes (hostile / older-version sender) */\n#endif",
             "struct geo_%s {" % Mn, "  u64 rbl, end; int ok, shrunk;"]
        for (path, g, d) in s.groups:
            n = pn(path); dims = "".join("[%d]" % G for _ in range(d))
            o.append("  u64 %s_hdr%s, %s_bl%s, %s_n%s, %s_ent%s[%d], %s_eend%s[%d], %s_end%s;" % (n, dims, n, dims, n, dims, n, dims, G, n, dims, G, n, dims))
        for (ppath, dt, d) in s.datas:
            n = pn(ppath + (dt.name,)); dims = "".join("[%d]" % G for _ in range(d))
            o.append("  u64 %s_off%s, %s_len%s;" % (n, dims, n, dims))
        o.append("};")
        obl, pbl = s.hdr["blockLength"]
        o.append("/* walks the image from its wire values: E = allowed blockLength extension per level, D = max data length;")
        o.append("   ok=0 if the geometry leaves the stated bounds or the buffer */")
        o.append("static void ref_walk_%s(const unsigned char *b, u64 n, struct geo_%s *r, u64 E, u64 D) {" % (Mn, Mn))
        o.append("  const int BE = %d; u64 pos; memset(r, 0, sizeof *r); r->ok = 1;" % s.be)
        o.append("  if (n < %d) { r->ok = 0; return; }" % s.HDR)
        o.append("  r->rbl = ref_rd(b + %d, %d, BE);" % (obl, SZ[pbl]))
        o.append("  if (r->rbl + ref_shrink < %d || r->rbl > %d + E) { r->ok = 0; return; }" % (s.msg.block_length, s.msg.block_length))
        o.append("  if (r->rbl < %d) r->shrunk = 1;" % s.msg.block_length)
        o.append("  pos = %d + r->rbl; if (pos > n) { r->ok = 0; return; }" % s.HDR)
        o += s._emit_members(s.msg, (), 0)
        o.append("  r->end = pos;")
        o.append("}")
        return "\n".join(o) + "\n"

    def _emit_members(s, node, path, d):
        G = s.G; L = []; ix = idx(d)
        for g in node.groups:
            n = pn(path + (g.name,)); hf = M.header_fields(g.dim); dsz = g.dim.size
            (obl, pbl), (on, pnn) = hf["blockLength"], hf["numInGroup"]
            L += ["  r->%s_hdr%s = pos; if (pos + %d > n) { r->ok = 0; return; }" % (n, ix, dsz),
                  "  r->%s_bl%s = ref_rd(b + pos + %d, %d, BE); r->%s_n%s = ref_rd(b + pos + %d, %d, BE);" % (n, ix, obl, SZ[pbl], n, ix, on, SZ[pnn]),
                  "  if (r->%s_n%s > %d || r->%s_bl%s + ref_shrink < %d || r->%s_bl%s > %d + E) { r->ok = 0; return; }" % (n, ix, G, n, ix, g.block_length, n, ix, g.block_length),
                  "  if (r->%s_bl%s < %d) r->shrunk = 1;" % (n, ix, g.block_length),
                  "  pos += %d;" % dsz,
                  "  for (unsigned i%d = 0; i%d < %d; i%d++) if (i%d < r->%s_n%s) {" % (d, d, G, d, d, n, ix),
                  "    r->%s_ent%s[i%d] = pos; if (pos + r->%s_bl%s > n) { r->ok = 0; return; } pos += r->%s_bl%s;" % (n, ix, d, n, ix, n, ix)]
            L += s._emit_members(g, path + (g.name,), d + 1)
            L += ["    r->%s_eend%s[i%d] = pos;" % (n, ix, d), "  }", "  r->%s_end%s = pos;" % (n, ix)]
        for dt in node.data:
            n = pn(path + (dt.name,)); lm = dt.length_member; lsz = SZ[lm.typ.prim]
            L += ["  r->%s_off%s = pos; if (pos + %d > n) { r->ok = 0; return; }" % (n, ix, lm.offset + lsz),
                  "  r->%s_len%s = ref_rd(b + pos + %d, %d, BE); if (r->%s_len%s > D) { r->ok = 0; return; }" % (n, ix, lm.offset, lsz, n, ix),
                  "  pos += %d + r->%s_len%s; if (pos > n) { r->ok = 0; return; }" % (dt.typ.size, n, ix)]
        return L

    # ------------------------------------------------------------------ C expressions over the geometry struct
    def level_base(s, lv):
        """C expression: offset of the level's block in the buffer (uses r and i0..)"""
        if not lv.path: return "%d" % s.HDR
        return "r.%s_ent%s" % (pn(lv.path), idx(lv.depth))

    def level_guard(s, lv):
        """C condition: the indices i0.. designate an existing entry"""
        conds = []
        for k in range(1, len(lv.path) + 1):
            conds.append("i%d < r.%s_n%s" % (k - 1, pn(lv.path[:k]), idx(k - 1)))
        return " && ".join(conds) or "1"

    def level_bl(s, lv):
        if not lv.path: return "r.rbl"
        return "r.%s_bl%s" % (pn(lv.path), idx(lv.depth - 1))

    def group_guard(s, path):
        return s.level_guard(Level(path[:-1], None, len(path) - 1)) if False else " && ".join(
            ["i%d < r.%s_n%s" % (k - 1, pn(path[:k]), idx(k - 1)) for k in range(1, len(path))]) or "1"

    # ------------------------------------------------------------------ C++ navigation
    def nav(s, path):
        e = "m"
        for k, g in enumerate(path):
            e = "at(%s.%s(), i%d)" % (e, g, k)
        return e

    const_views = False

    def view(s, const=False):
        return "auto m = sbepp::make_%sview<%s::messages::%s>(p, n);" % ("const_" if (const or s.const_views) else "", s.ns, s.M)

    def cpp_prelude(s):
        return hgen.W_PRELUDE + "#include <%s/%s.hpp>\n" % (s.ns, s.ns) + CPP_COMMON

    def wname(s, kind, lv, leaf=None, extra=""):
        return "%s_%s_%s%s%s" % (kind, s.M, lv.name if hasattr(lv, "name") else pn(lv), ("_" + leaf.name) if leaf else "", extra)

    def cpp_getset_bytag(s):
        """field-level scalar accessors through sbepp::get_by_tag / set_by_tag (same wrapper names as cpp_getset)"""
        o = []
        for lv in s.levels:
            e = s.nav(lv.path)
            mtag = "%s::schema::messages::%s" % (s.ns, "::".join((s.M,) + lv.path))
            for lf in lv.leaves:
                if len(lf.chain) != 1 or lf.kind == "array": continue
                tag = "%s::%s" % (mtag, lf.chain[0])
                o.append("W uint64_t %s(char* p, size_t n, IDX){ %s return to_bits(sbepp::get_by_tag<%s>(%s)); }" % (s.wname("get", lv, lf), s.view(), tag, e))
                if not lf.const:
                    o.append("W void %s(char* p, size_t n, IDX, uint64_t v){ %s auto o = %s; sbepp::set_by_tag<%s>(o, from_bits<decltype(o.%s())>(v)); }" % (
                        s.wname("set", lv, lf), s.view(), e, tag, lf.chain[0]))
        return "\n".join(o) + "\n"

    def cpp_getset(s, setters=True):
        o = []
        for lv in s.levels:
            e = s.nav(lv.path)
            for lf in lv.leaves:
                if lf.kind == "array":
                    if lf.const:
                        o.append("W uint64_t %s(char* p, size_t n, IDX, uint32_t k){ %s return to_bits(%s[k]); }" % (s.wname("getel", lv, lf), s.view(), lf.expr(e)))
                        o.append("W uint64_t %s(char* p, size_t n, IDX){ %s return %s.size(); }" % (s.wname("arrsize", lv, lf), s.view(), lf.expr(e)))
                        continue
                    o.append("W uint64_t %s(char* p, size_t n, IDX, uint32_t k){ %s return to_bits(%s[k]); }" % (s.wname("getel", lv, lf), s.view(), lf.expr(e)))
                    o.append("W int64_t %s(char* p, size_t n, IDX){ %s return (const char*)%s.data() - p; }" % (s.wname("arrdata", lv, lf), s.view(), lf.expr(e)))
                    o.append("W uint64_t %s(char* p, size_t n, IDX){ %s auto a = %s; return a.size() + 1000 * sbepp::size_bytes(a); }" % (s.wname("arrsize", lv, lf), s.view(), lf.expr(e)))
                    if setters:
                        o.append("W void %s(char* p, size_t n, IDX, uint32_t k, uint64_t v){ %s auto a = %s; a[k] = from_bits<typename decltype(a)::value_type>(v); }" % (s.wname("setel", lv, lf), s.view(), lf.expr(e)))
                    continue
                o.append("W uint64_t %s(char* p, size_t n, IDX){ %s return to_bits(%s); }" % (s.wname("get", lv, lf), s.view(), lf.expr(e)))
                if setters and not lf.const:
                    o.append("W void %s(char* p, size_t n, IDX, uint64_t v){ %s auto o = %s; o.%s(from_bits<decltype(o.%s())>(v)); }" % (
                        s.wname("set", lv, lf), s.view(), lf.parent_expr(e), lf.chain[-1], lf.chain[-1]))
            for (chain, off, ct) in lv.comps:
                ce = e + "".join(".%s()" % c for c in chain)
                o.append("W int64_t %s(char* p, size_t n, IDX){ %s auto c = %s; return ((const char*)sbepp::addressof(c) - p) + 1000 * (int64_t)sbepp::size_bytes(c); }" % (
                    s.wname("compaddr", lv, None, "_" + "_".join(chain)), s.view(), ce))
        return "\n".join(o) + "\n"

    def cpp_geom(s, mutators=True, sizes=False):
        """one navigation per wrapper (several library walks in one solver query multiply the cost):
        ginfo: out = {size, group addr, header addr, header size, entry addr (if i_d < size), -}
        dinfo: out = {size, data addr, payload addr, byte k (if k < size)}"""
        o = []
        o.append("W uint64_t msize_%s(char* p, size_t n){ %s return sbepp::size_bytes(m); }" % (s.M, s.view()))
        o.append("W void minfo_%s(char* p, size_t n, int64_t* out){ %s out[0] = (const char*)sbepp::addressof(m) - p; auto h = sbepp::get_header(m); out[1] = (const char*)sbepp::addressof(h) - p; out[2] = sbepp::size_bytes(h); }" % (s.M, s.view()))
        for (path, g, d) in s.groups:
            ge = s.nav(path[:-1]) + ".%s()" % g.name; n = pn(path)
            o.append("W void ginfo_%s_%s(char* p, size_t n, IDX, int64_t* out){ %s auto g = %s; out[0] = (int64_t)g.size(); out[1] = (const char*)sbepp::addressof(g) - p; "
                     "auto h = sbepp::get_header(g); out[2] = (const char*)sbepp::addressof(h) - p; out[3] = sbepp::size_bytes(h); out[4] = -1; "
                     "if(i%d < g.size()){ auto e = at(g, i%d); out[4] = (const char*)sbepp::addressof(e) - p; } }" % (s.M, n, s.view(), ge, d, d))
            if sizes:
                o.append("W uint64_t gbytes_%s_%s(char* p, size_t n, IDX){ %s return sbepp::size_bytes(%s); }" % (s.M, n, s.view(), ge))
                o.append("W uint64_t ebytes_%s_%s(char* p, size_t n, IDX){ %s return sbepp::size_bytes(%s); }" % (s.M, n, s.view(), s.nav(path)))
            if mutators:
                o.append("W void gresize_%s_%s(char* p, size_t n, IDX, uint64_t c){ %s auto g = %s; g.resize((typename decltype(g)::size_type)c); }" % (s.M, n, s.view(), ge))
        for (ppath, dt, d) in s.datas:
            de = s.nav(ppath) + ".%s()" % dt.name; n = pn(ppath + (dt.name,))
            o.append("W void dinfo_%s_%s(char* p, size_t n, IDX, uint32_t k, int64_t* out){ %s auto d = %s; out[0] = (int64_t)d.size(); out[1] = (const char*)sbepp::addressof(d) - p; "
                     "out[2] = (const char*)d.data() - p; out[3] = -1; if(k < d.size()) out[3] = (int64_t)to_bits(d[k]); }" % (s.M, n, s.view(), de))
            if sizes:
                o.append("W uint64_t dbytes_%s_%s(char* p, size_t n, IDX){ %s return sbepp::size_bytes(%s); }" % (s.M, n, s.view(), de))
            if mutators:
                o.append("W void dresize_%s_%s(char* p, size_t n, IDX, uint64_t c){ %s auto d = %s; d.resize((typename decltype(d)::size_type)c, sbepp::default_init); }" % (s.M, n, s.view(), de))
                o.append("W void dset_%s_%s(char* p, size_t n, IDX, uint32_t k, uint64_t v){ %s auto d = %s; d[k] = from_bits<typename decltype(d)::value_type>(v); }" % (s.M, n, s.view(), de))
        return "\n".join(o) + "\n"

    # ------------------------------------------------------------------ cursor protocol model
    def cursor_members(s, lv):
        """members of a level in cursor order with their documented positions (C expressions over r / i0.. / constants)"""
        base = s.level_base(lv); bl = s.level_bl(lv); d = lv.depth; ix = idx(d)
        out = []
        fields = [f for f in lv.node.fields if not f.is_constant]
        prev_end = 0
        for k, f in enumerate(fields):
            last = k == len(fields) - 1
            kind = "view" if (f.typ.kind == "composite" or (f.typ.kind == "type" and f.typ.is_array)) else "scalar"
            out.append({"name": f.name, "kind": kind, "first_dyn": False, "size": f.size, "prim": getattr(f.typ, "prim", None),
                        "before": "(%s + %d)" % (base, prev_end), "off": "(%s + %d)" % (base, f.offset),
                        "after": "(%s + %s)" % (base, bl) if last else "(%s + %d)" % (base, f.offset + f.size)})
            out[-1]["after_skip"] = out[-1]["after"]
            prev_end = f.offset + f.size
        prev = None
        first = True
        for gr in lv.node.groups:
            n = pn(lv.path + (gr.name,))
            start = "r.%s_hdr%s" % (n, ix)
            out.append({"name": gr.name, "kind": "group", "first_dyn": first, "before": "(%s + %s)" % (base, bl) if first else prev, "off": start,
                        "after": "(%s + %d)" % (start, gr.dim.size), "after_skip": "r.%s_end%s" % (n, ix)})
            prev = "r.%s_end%s" % (n, ix); first = False
        for dt in lv.node.data:
            n = pn(lv.path + (dt.name,))
            start = "r.%s_off%s" % (n, ix); end = "(r.%s_off%s + %d + r.%s_len%s)" % (n, ix, dt.typ.size, n, ix)
            out.append({"name": dt.name, "kind": "data", "first_dyn": first, "before": "(%s + %s)" % (base, bl) if first else prev, "off": start,
                        "after": end, "after_skip": end})
            prev = end; first = False
        return out

    def cpp_cursor(s):
        o = []
        for lv in s.levels:
            e = s.nav(lv.path)
            for m in s.cursor_members(lv):
                X = m["name"]
                val = "to_bits(%s)" if m["kind"] == "scalar" else "(uint64_t)((const char*)sbepp::addressof(%s) - p)"
                call = lambda cur: val % ("lv.%s(%s)" % (X, cur))
                o.append("W void cur_%s_%s_%s(char* p, size_t n, IDX, uint32_t kind, int64_t coff, int64_t* out){ %s auto lv = %s; sbepp::cursor<char> c; c.pointer() = p + coff; out[0] = 0; "
                         "switch(kind){ case 0: out[0] = (int64_t)%s; break; case 1: out[0] = (int64_t)%s; break; case 2: out[0] = (int64_t)%s; break; case 3: out[0] = (int64_t)%s; break; "
                         "default: lv.%s(sbepp::cursor_ops::skip(c)); break; } out[1] = c.pointer() - p; }" % (
                             s.M, lv.name, X, s.view(), e, call("c"), call("sbepp::cursor_ops::init(c)"), call("sbepp::cursor_ops::dont_move(c)"),
                             call("sbepp::cursor_ops::init_dont_move(c)"), X))
        return "\n".join(o) + "\n"

    def _skip_members(s, node, var):
        st = "".join("%s.%s(sbepp::cursor_ops::skip(c)); " % (var, f.name) for f in node.fields if not f.is_constant)
        st += "".join("%s.%s(sbepp::cursor_ops::skip(c)); " % (var, gr.name) for gr in node.groups)
        st += "".join("%s.%s(sbepp::cursor_ops::skip(c)); " % (var, dt.name) for dt in node.data)
        return st

    def cpp_cursor_ranges(s):
        """cursor_range / cursor_subrange over every group: entries are consumed with skip on each member"""
        o = []
        for (path, gr, d) in s.groups:
            n = pn(path); par = s.nav(path[:-1])
            body = s._skip_members(gr, "e")
            o.append("W void crange_%s_%s(char* p, size_t n, IDX, int64_t* addrs, uint32_t cap, int64_t* out){ %s auto lv = %s; sbepp::cursor<char> c; auto g = lv.%s(sbepp::cursor_ops::init(c)); "
                     "uint32_t k = 0; for(auto e : g.cursor_range(c)){ if(k < cap) addrs[k] = (const char*)sbepp::addressof(e) - p; k++; %s} out[0] = k; out[1] = c.pointer() - p; }" % (
                         s.M, n, s.view(), par, gr.name, body))
            o.append("W void csub_%s_%s(char* p, size_t n, IDX, uint64_t pos, uint64_t cnt, uint32_t use_cnt, int64_t coff, int64_t* addrs, uint32_t cap, int64_t* out){ %s auto lv = %s; auto g = lv.%s(); "
                     "sbepp::cursor<char> c; c.pointer() = p + coff; using S = typename decltype(g)::size_type; uint32_t k = 0; "
                     "if(use_cnt){ for(auto e : g.cursor_subrange(c, (S)pos, (S)cnt)){ if(k < cap) addrs[k] = (const char*)sbepp::addressof(e) - p; k++; %s} } "
                     "else { for(auto e : g.cursor_subrange(c, (S)pos)){ if(k < cap) addrs[k] = (const char*)sbepp::addressof(e) - p; k++; %s} } out[0] = k; out[1] = c.pointer() - p; }" % (
                         s.M, n, s.view(), par, gr.name, body, body))
        return "\n".join(o) + "\n"

    def cpp_cursor_setters(s):
        o = []
        for lv in s.levels:
            e = s.nav(lv.path)
            for m in s.cursor_members(lv):
                if m["kind"] != "scalar": continue
                X = m["name"]
                call = lambda cur: "lv.%s(from_bits<decltype(lv.%s())>(v), %s)" % (X, X, cur)
                o.append("W void curset_%s_%s_%s(char* p, size_t n, IDX, uint32_t kind, int64_t coff, uint64_t v, int64_t* out){ %s auto lv = %s; sbepp::cursor<char> c; c.pointer() = p + coff; "
                         "switch(kind){ case 0: %s; break; case 1: %s; break; case 2: %s; break; default: %s; break; } out[0] = c.pointer() - p; }" % (
                             s.M, lv.name, X, s.view(), e, call("c"), call("sbepp::cursor_ops::init(c)"), call("sbepp::cursor_ops::dont_move(c)"), call("sbepp::cursor_ops::init_dont_move(c)")))
        return "\n".join(o) + "\n"

    # ------------------------------------------------------------------ harness prologue
    def prologue(s, N, E, D, guard_bytes=0):
        """declares buf (symbolic image), old copy, geometry r"""
        t = "  enum { N = %d };\n" % N
        t += "  IN_BYTES(buf, N); unsigned char old[N]; verif_copy(old, buf, N);\n"
        t += "  struct geo_%s r; ref_walk_%s(buf, N, &r, %d, %d);\n  VASSUME(r.ok);\n" % (s.M, s.M, E, D)
        t += "  IN(u32, i0); IN(u32, i1); VASSUME(i0 < %d && i1 < %d);\n" % (s.G, s.G)
        return t

    def max_size(s, E, D):
        """upper bound of the image size under the bounds (for choosing N)"""
        def lvl(node):
            t = 0
            for g in node.groups:
                t += g.dim.size + s.G * (g.block_length + E + lvl(g))
            for dt in node.data:
                t += dt.typ.size + D
            return t
        return s.HDR + s.msg.block_length + E + lvl(s.msg)


# ====================================================================== visiting (C19)
VISIT_CPP = r'''
struct ev { uint32_t kind, tag; uint64_t off, val; };
struct vlog { ev* e; uint32_t n, cap, stop_at; const char* base; };
template<class Tag> struct tag_id { static constexpr uint32_t value = 0; };
struct rec {
  vlog* l;
  bool push(uint32_t kind, uint32_t tag, uint64_t off, uint64_t val){ if(l->n < l->cap){ l->e[l->n].kind = kind; l->e[l->n].tag = tag; l->e[l->n].off = off; l->e[l->n].val = val; } l->n++; return l->n == l->stop_at; }
  bool stopped() const { return l->stop_at && l->n >= l->stop_at; }
  template<class T> uint64_t off(T v) const { return (uint64_t)((const char*)sbepp::addressof(v) - l->base); }
  // composite view
  template<class T, class Tag> auto leaf(uint32_t ks, uint32_t kv, T f, Tag, rank<2>) -> typename std::enable_if<sbepp::is_composite<T>::value, bool>::type {
    if(push(8, tag_id<Tag>::value, off(f), ks)) return true; return sbepp::visit_children(f, *this).stopped(); }
  // array view
  template<class T, class Tag> auto leaf(uint32_t ks, uint32_t kv, T f, Tag, rank<1>) -> decltype(sbepp::addressof(f), bool()) { return push(kv, tag_id<Tag>::value, off(f), f.size()); }
  // scalar (required/optional/enum/set)
  template<class T, class Tag> bool leaf(uint32_t ks, uint32_t kv, T f, Tag, rank<0>) { return push(ks, tag_id<Tag>::value, 0, to_bits(f)); }
  template<class T, class Tag> bool on_field(T f, Tag t){ return leaf(1, 9, f, t, rank<2>{}); }
  template<class T, class Tag> bool on_type(T f, Tag t){ return leaf(5, 10, f, t, rank<2>{}); }
  template<class T, class Tag> bool on_enum(T f, Tag){ return push(6, tag_id<Tag>::value, 0, to_bits(f)); }
  template<class T, class Tag> bool on_set(T f, Tag){ return push(7, tag_id<Tag>::value, 0, to_bits(f)); }
  template<class T, class Tag> bool on_composite(T f, Tag t){ return leaf(5, 10, f, t, rank<2>{}); }
  template<class T, class C, class Tag> bool on_group(T g, C& c, Tag){ if(push(2, tag_id<Tag>::value, off(g), g.size())) return true; return sbepp::visit_children(g, c, *this).stopped(); }
  template<class T, class C> bool on_entry(T e, C& c){ if(push(3, 0, off(e), 0)) return true; return sbepp::visit_children(e, c, *this).stopped(); }
  template<class T, class Tag> bool on_data(T d, Tag){ return push(4, tag_id<Tag>::value, off(d), d.size()); }
  template<class T, class C, class Tag> void on_message(T m, C& c, Tag){ if(push(11, tag_id<Tag>::value, off(m), 0)) return; sbepp::visit_children(m, c, *this); }
};
'''


def _comp_events(comp, tagpath, base_c, tags, be, ns):
    """C statements (list) appending the expected child events of a composite at C offset expression base_c"""
    L = []
    for m in comp.members:
        if m.is_constant: continue
        t = m.typ
        tag = tags.setdefault("%s::schema::types::%s::%s" % (ns, "::".join(tagpath), m.name), len(tags) + 1)
        off = "(%s + %d)" % (base_c, m.offset)
        if t.kind == "composite":
            L.append("EXP(8, %d, %s, 5);" % (tag, off))
            sub = (t.name,) if m.is_ref else tagpath + (m.name,)
            L += _comp_events(t, sub, off, tags, be, ns)
        elif t.kind == "enum": L.append("EXP(6, %d, 0, ref_rd(buf + %s, %d, %d));" % (tag, off, SZ[t.prim], be))
        elif t.kind == "set": L.append("EXP(7, %d, 0, ref_rd(buf + %s, %d, %d));" % (tag, off, SZ[t.prim], be))
        elif t.is_array: L.append("EXP(10, %d, %s, %d);" % (tag, off, t.length))
        else: L.append("EXP(5, %d, 0, ref_rd(buf + %s, %d, %d));" % (tag, off, SZ[t.prim], be))
    return L


def visit_model(g):
    """returns (tags dict: c++ tag type -> id, C code lines building exp[]/ne from r, event capacity bound)"""
    tags = {}
    ns, Mn, be = g.ns, g.M, g.be
    def level(node, path, d, base_c):
        L = []
        mtag = "%s::schema::messages::%s" % (ns, "::".join((Mn,) + path))
        for f in node.fields:
            if f.is_constant: continue
            tag = tags.setdefault("%s::%s" % (mtag, f.name), len(tags) + 1)
            t = f.typ; off = "(%s + %d)" % (base_c, f.offset)
            if t.kind == "composite":
                L.append("EXP(8, %d, %s, 1);" % (tag, off))
                L += _comp_events(t, (t.name,), off, tags, be, ns)
            elif t.kind in ("enum", "set") or not t.is_array:
                L.append("EXP(1, %d, 0, ref_rd(buf + %s, %d, %d));" % (tag, off, SZ[t.prim], be))
            else:
                L.append("EXP(9, %d, %s, %d);" % (tag, off, t.length))
        ix = idx(d)
        for gr in node.groups:
            n = pn(path + (gr.name,))
            tag = tags.setdefault("%s::%s" % (mtag, gr.name), len(tags) + 1)
            L.append("EXP(2, %d, r.%s_hdr%s, r.%s_n%s);" % (tag, n, ix, n, ix))
            L.append("for (unsigned i%d = 0; i%d < %d; i%d++) if (i%d < r.%s_n%s) {" % (d, d, g.G, d, d, n, ix))
            L.append("  EXP(3, 0, r.%s_ent%s[i%d], 0);" % (n, ix, d))
            L += ["  " + x for x in level(gr, path + (gr.name,), d + 1, "r.%s_ent%s[i%d]" % (n, ix, d))]
            L.append("}")
        for dt in node.data:
            n = pn(path + (dt.name,))
            tag = tags.setdefault("%s::%s" % (mtag, dt.name), len(tags) + 1)
            L.append("EXP(4, %d, r.%s_off%s, r.%s_len%s);" % (tag, n, ix, n, ix))
        return L
    lines = level(g.msg, (), 0, "%d" % g.HDR)
    def cap(node):
        c = 0
        for f in node.fields:
            if f.is_constant: continue
            c += 1 + (len(M.leaves(f.typ.members)) + len(M.composites(f.typ.members)) if f.typ.kind == "composite" else 0)
        for gr in node.groups: c += 1 + g.G * (1 + cap(gr))
        c += len(node.data)
        return c
    return tags, lines, cap(g.msg) + 2


def cpp_visit(g, tags):
    o = [VISIT_CPP]
    for t, k in tags.items():
        o.append("template<> struct tag_id<%s> { static constexpr uint32_t value = %d; };" % (t, k))
    o.append("template<> struct tag_id<%s::schema::messages::%s> { static constexpr uint32_t value = 9999; };" % (g.ns, g.M))
    o.append("W int64_t visitc_%s(char* p, size_t n, vlog* l){ %s l->base = p; auto c = sbepp::init_cursor(m); rec v{l}; sbepp::visit_children(m, c, v); return c.pointer() - p; }" % (g.M, g.view()))
    o.append("W int64_t visit_%s(char* p, size_t n, vlog* l){ %s l->base = p; auto c = sbepp::init_cursor(m); rec v{l}; sbepp::visit(m, c, v); return c.pointer() - p; }" % (g.M, g.view()))
    o.append("struct cntv { uint32_t n, stop_at; bool hit(){ n++; return n == stop_at; } bool stopped() const { return stop_at && n >= stop_at; } "
             "template<class T, class Tag> bool on_field(T, Tag){ return hit(); } template<class T, class Tag> bool on_data(T, Tag){ return hit(); } "
             "template<class T, class C, class Tag> bool on_group(T g, C& c, Tag){ if(hit()) return true; return sbepp::visit_children(g, c, *this).stopped(); } "
             "template<class T, class C> bool on_entry(T e, C& c){ if(hit()) return true; return sbepp::visit_children(e, c, *this).stopped(); } };")
    o.append("W int64_t visitcount_%s(char* p, size_t n, uint32_t stop_at, uint32_t* count){ %s auto c = sbepp::init_cursor(m); cntv v{0, stop_at}; sbepp::visit_children(m, c, v); *count = v.n; return c.pointer() - p; }" % (g.M, g.view()))
    o.append("W int64_t visitcc_%s(const char* p, size_t n, vlog* l){ %s l->base = p; rec v{l}; sbepp::visit_children(m, v); return 0; }" % (g.M, g.view(const=True)))
    return "\n".join(o) + "\n"


# ====================================================================== scripted full encode (C01 composition cross-check)
def encode_script(g, D):
    """returns (C++ wrapper text, C reference lines) for: fill header; set every field; for every group fill_group_header(count) then encode its entries in order;
    for every data resize(len) and store every byte.  Values come from vals[], counts from cnts[], lengths from lens[] (consumed in script order)."""
    cpp = ["W void encode_%s(char* p, size_t n, const uint64_t* vals, const uint32_t* cnts, const uint32_t* lens){ %s uint32_t vi = 0, ci = 0, li = 0; sbepp::fill_message_header(m);" % (g.M, g.view())]
    ref = []
    be = g.be
    hv = {"blockLength": g.msg.block_length, "templateId": g.msg.id, "schemaId": g.sch.id, "version": g.sch.version, "numGroups": len(g.msg.groups), "numVarDataFields": len(g.msg.data)}
    for name, v in hv.items():
        if name in g.hdr:
            off, prim = g.hdr[name]
            ref.append("for (unsigned k = 0; k < %d; k++) exp[%d + k] = ref_byte(%dULL, %d, %d, k);" % (SZ[prim], off, v, SZ[prim], be))
    ref.append("u64 pos; u32 vi = 0, ci = 0, li = 0;")

    def level(node, var, base_c, bl_c, depth, ind):
        for lf in M.leaves(node.fields):
            if lf.const: continue
            if lf.kind == "array":
                for k in range(lf.typ.length):
                    cpp.append("%s{ auto a = %s; a[%d] = from_bits<typename decltype(a)::value_type>(vals[vi++]); }" % (ind, lf.expr(var), k))
                    ref.append("%sexp[%s + %d] = (unsigned char)vals[vi++];" % (ind, base_c, lf.offset + k))
            else:
                par = lf.parent_expr(var); nm = lf.chain[-1]
                cpp.append("%s{ auto o = %s; o.%s(from_bits<decltype(o.%s())>(vals[vi++])); }" % (ind, par, nm, nm))
                ref.append("%s{ u64 v = vals[vi++]; for (unsigned k = 0; k < %d; k++) exp[%s + %d + k] = ref_byte(v, %d, %d, k); }" % (ind, SZ[lf.prim], base_c, lf.offset, SZ[lf.prim], be))
        ref.append("%spos = %s + %s;" % (ind, base_c, bl_c))
        for gr in node.groups:
            hf = M.header_fields(gr.dim); d = depth
            cpp.append("%s{ auto g%d = %s.%s(); uint32_t c%d = cnts[ci++]; sbepp::fill_group_header(g%d, (typename decltype(g%d)::size_type)c%d); for(uint32_t j%d = 0; j%d < c%d; j%d++){ auto e%d = at(g%d, j%d);" % (
                ind, d, var, gr.name, d, d, d, d, d, d, d, d, d, d, d))
            ref.append("%s{ u32 c%d = cnts[ci++]; u64 h%d = pos;" % (ind, d, d))
            gv = {"blockLength": gr.block_length, "numGroups": len(gr.groups), "numVarDataFields": len(gr.data)}
            for name, v in gv.items():
                if name in hf:
                    off, prim = hf[name]
                    ref.append("%s  for (unsigned k = 0; k < %d; k++) exp[h%d + %d + k] = ref_byte(%dULL, %d, %d, k);" % (ind, SZ[prim], d, off, v, SZ[prim], be))
            off, prim = hf["numInGroup"]
            ref.append("%s  for (unsigned k = 0; k < %d; k++) exp[h%d + %d + k] = ref_byte(c%d, %d, %d, k);" % (ind, SZ[prim], d, off, d, SZ[prim], be))
            ref.append("%s  pos = h%d + %d;" % (ind, d, gr.dim.size))
            ref.append("%s  for (unsigned j%d = 0; j%d < %d; j%d++) if (j%d < c%d) { u64 b%d = pos;" % (ind, d, d, g.G, d, d, d, d))
            level(gr, "e%d" % d, "b%d" % d, "%d" % gr.block_length, depth + 1, ind + "    ")
            cpp.append("%s} }" % ind)
            ref.append("%s  } }" % ind)
        for dt in node.data:
            lm = dt.length_member; lsz = SZ[lm.typ.prim]; hs = dt.typ.size
            cpp.append("%s{ auto d = %s.%s(); uint32_t l = lens[li++]; d.resize((typename decltype(d)::size_type)l, sbepp::default_init); for(uint32_t k = 0; k < l; k++) d[(typename decltype(d)::size_type)k] = from_bits<typename decltype(d)::value_type>(vals[vi++]); }" % (ind, var, dt.name))
            ref.append("%s{ u32 l = lens[li++]; for (unsigned k = 0; k < %d; k++) exp[pos + %d + k] = ref_byte(l, %d, %d, k); for (unsigned k = 0; k < %d; k++) if (k < l) exp[pos + %d + k] = (unsigned char)vals[vi++]; pos += %d + l; }" % (
                ind, lsz, lm.offset, lsz, be, D, hs, hs))
    level(g.msg, "m", "%d" % g.HDR, "%d" % g.msg.block_length, 0, "  ")
    cpp.append("}")
    ref.append("u64 end = pos;")
    return "\n".join(cpp) + "\n", ref
