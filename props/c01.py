"""C01 -- encoding writes exactly the SBE wire image (every setter: post-image == reference image, frame elsewhere)."""
import os
import hgen, msggen, c02
from hgen import P, M
from msggen import SZ, pn, idx

FRAME = '    for (unsigned i = 0; i < N; i++) { if (i >= lo && i < hi) VASSERT(buf[i] == ref_byte(v, (unsigned)(hi - lo), %d, i - (unsigned)lo), "written bytes == value in the schema byte order"); else VASSERT(buf[i] == old[i], "every byte that does not belong to the written member keeps its previous value"); }\n'


def arms_for(g, lv):
    arms = []
    base = g.level_base(lv); guard = g.level_guard(lv); be = g.be; d = lv.depth
    for lf in lv.leaves:
        if lf.const: continue
        off = "(%s + %d)" % (base, lf.offset)
        if lf.kind == "array":
            n = lf.typ.length
            code = "    VASSUME(%s); IN(u32, k); VASSUME(k < %d); IN(u64, v); u64 lo = %s + k, hi = lo + 1;\n" % (guard, n, off)
            code += "    CALL(%s(buf, N, i0, i1, k, v));\n" % g.wname("setel", lv, lf)
        else:
            code = "    VASSUME(%s); IN(u64, v); u64 lo = %s, hi = lo + %d;\n" % (guard, off, SZ[lf.prim])
            code += "    CALL(%s(buf, N, i0, i1, v));\n" % g.wname("set", lv, lf)
        code += '    VASSERT(!verif_aborted, "in-bounds setter must not invoke the handler");\n' + FRAME % be
        arms.append((lf.name, code))
    for gr in lv.node.groups:
        n = pn(lv.path + (gr.name,)); ix = idx(d); hf = M.header_fields(gr.dim); (on, pnn) = hf["numInGroup"]
        code = "    VASSUME(%s); IN(u64, v); VASSUME(v <= 0x%xULL); u64 lo = r.%s_hdr%s + %d, hi = lo + %d;\n" % (guard, (1 << (8 * SZ[pnn])) - 2, n, ix, on, SZ[pnn])
        code += "    CALL(gresize_%s_%s(buf, N, i0, i1, v));\n" % (g.M, n)
        code += '    VASSERT(!verif_aborted, "resize within the numInGroup range must not invoke the handler");\n' + FRAME % be
        arms.append(("resize_" + n, code))
    for dt in lv.node.data:
        n = pn(lv.path + (dt.name,)); ix = idx(d); lm = dt.length_member; lsz = SZ[lm.typ.prim]
        code = "    VASSUME(%s); IN(u64, v); VASSUME(r.%s_off%s + %d + v <= N); VASSUME(v <= 0x%xULL); u64 lo = r.%s_off%s + %d, hi = lo + %d;\n" % (
            guard, n, ix, dt.typ.size, (1 << (8 * lsz)) - 2, n, ix, lm.offset, lsz)
        code += "    CALL(dresize_%s_%s(buf, N, i0, i1, v));\n" % (g.M, n)
        code += '    VASSERT(!verif_aborted, "resize that fits the buffer must not invoke the handler");\n' + FRAME % be
        arms.append(("dresize_" + n, code))
        code = "    VASSUME(%s); IN(u64, v); IN(u32, k); VASSUME(k < r.%s_len%s); u64 lo = r.%s_off%s + %d + k, hi = lo + 1;\n" % (guard, n, ix, n, ix, dt.typ.size)
        code += "    CALL(dset_%s_%s(buf, N, i0, i1, k, v));\n" % (g.M, n)
        code += '    VASSERT(!verif_aborted, "no handler");\n' + FRAME % be
        arms.append(("dset_" + n, code))
    return arms


def harness(u, g, arms, N, E, D):
    body = g.prologue(N, E, D) + "  SELECT(which);\n  switch (which) {\n"
    for k, (label, code) in enumerate(arms):
        body += "  case %d: { /* %s */\n%s    break; }\n" % (k, label, code)
    body += "  default: VASSUME(0);\n  }\n"
    return hgen.harness([u], body, pre=g.ref_c())


def hdr_family(xml):
    return "vs_hdr" in os.path.basename(xml) or os.path.isabs(xml)


def build(ctx):
    hs = []
    G, D = 2, ctx.q(2, 3)
    ctx.assumptions = ["arbitrary prior image (every byte symbolic); geometry fields within bounds: numInGroup <= %d, data length <= %d, wire blockLength == compiled; value v symbolic over the full 64-bit range" % (G, D),
                       "one setter call from an arbitrary prior image (one inductive step: any in-order sequence of setter calls composes such steps)"]
    for (xml, std, mode) in c02.plan(ctx) + [(x, "17", "checked") for x in c02.random_schemas(ctx)]:
        sch, inc = c02.gen_any(ctx, xml)
        for msg in sch.messages:
            if ctx.quick and msg.name in c02.QUICK_SKIP: continue
            g = msggen.MG(sch, msg, G)
            u = ctx.lower("c01_%s_%s" % (sch.ns, msg.name), g.cpp_prelude() + g.cpp_getset(setters=True) + g.cpp_geom(mutators=True), std=std, mode=mode, incs=[inc])
            N = g.max_size(0, D) + 1
            dynamic = bool(msg.groups or msg.data)
            for lv in g.levels:
                arms = arms_for(g, lv)
                if not arms: continue
                groups = [[a] for a in arms] if dynamic else [arms[j:j + 6] for j in range(0, len(arms), 6)]
                for k, chunk in enumerate(groups):
                    nm = chunk[0][0] if dynamic else str(k)
                    hs.append(P.Harness("%s_%s_%s_%s_%s_cxx%s" % (sch.ns, msg.name, lv.name, nm, mode, std), harness(u, g, chunk, N, 0, D), [u], unwind=G + 2,
                                        cap=ctx.q(600, 1200), backends=["minisat", "kissat"], extra_flags=["--no-standard-checks"],
                                        meta={"big_loops": ["ref_walk_%s.%d" % (msg.name, x) for x in range(16)]},
                                        desc="message %s.%s level %s: setter(s) %s write exactly the reference bytes at the reference position; all other bytes unchanged" % (sch.ns, msg.name, lv.name, [a[0] for a in chunk]),
                                        bounds={"N": N, "G": G, "D": D, "std": "c++" + std, "build": mode, "byte_order": "BE" if sch.be else "LE"}))
            # cursor-based setters (the usual way of encoding in order): same obligation, cursor at the position the member requires (all five cursor kinds), documented end position
            if hdr_family(xml) or (ctx.quick and std != "17"): continue
            import c04
            uc = ctx.lower("c01cs_%s_%s" % (sch.ns, msg.name), g.cpp_prelude() + g.cpp_cursor_setters(), std=std, mode=mode, incs=[inc])
            for lv in g.levels:
                carms = c04.setter_arms(g, lv, mode == "checked")
                if not carms: continue
                groups = [[a] for a in carms] if dynamic else [carms[j:j + 5] for j in range(0, len(carms), 5)]
                for k, chunk in enumerate(groups):
                    nm = chunk[0][0] if dynamic else str(k)
                    hs.append(P.Harness("%s_%s_%s_cursor_%s_%s_cxx%s" % (sch.ns, msg.name, lv.name, nm, mode, std), c04.harness_nw(uc, g, chunk, N, 0, D), [uc], unwind=G + 2,
                                        cap=ctx.q(600, 1200), backends=["minisat", "kissat"], extra_flags=["--no-standard-checks"],
                                        meta={"big_loops": ["ref_walk_%s.%d" % (msg.name, x) for x in range(16)]},
                                        desc="message %s.%s level %s: cursor-based setter(s) %s (plain, init, dont_move, init_dont_move) write exactly the reference bytes where the random-access setter writes them; all other bytes unchanged; documented cursor position" % (sch.ns, msg.name, lv.name, [a[0] for a in chunk]),
                                        bounds={"N": N, "G": G, "D": D, "std": "c++" + std, "build": mode, "byte_order": "BE" if sch.be else "LE"}))
    # header fills are part of "any in-order sequence of header fills, ...": the C17 obligations (exact identifying values incl. numGroups/numVarDataFields, frame elsewhere) on the header-layout schemas
    import c17
    for xml in (("vs_hdr_d.xml", "vs_hdr_b.xml") if ctx.quick else tuple("vs_hdr_%s.xml" % k_ for k_ in "abcde")):
        sch, inc = hgen.gen_headers(ctx, xml)
        for msg in sch.messages:
            g = msggen.MG(sch, msg, G)
            uh = ctx.lower("c17_%s_%s" % (sch.ns, msg.name), g.cpp_prelude() + c17.cpp(g), std="17", mode="checked", incs=[inc])
            N = g.max_size(0, 1) + 1
            for a in c17.arms(g, sch):
                hs.append(P.Harness("%s_%s_hdrfill_%s_cxx17" % (sch.ns, msg.name, a[0]), c17.harness(uh, g, [a], N, 0, 1), [uh], unwind=G + 2,
                                    cap=ctx.q(600, 1200), backends=["minisat", "kissat"], extra_flags=["--no-standard-checks"],
                                    meta={"big_loops": ["ref_walk_%s.%d" % (msg.name, x) for x in range(16)]},
                                    desc="%s.%s: %s writes exactly the schema's identifying values (numGroups / numVarDataFields = member counts of that level) and nothing else" % (sch.ns, msg.name, a[0]),
                                    bounds={"N": N, "G": G, "D": 1, "std": "c++17"}))
    # composition cross-check: one scripted in-order encode (header, fields, groups, entries, data) against the reference image
    for (xml, std, mode) in c02.plan(ctx)[:2 if ctx.quick else None]:
        if os.path.isabs(xml): continue
        sch, inc = hgen.gen_headers(ctx, xml)
        for msg in sch.messages:
            if msg.name not in (("comp", "grp", "tailc", "odd", "misc") if ctx.quick else ("prim", "misc", "comp", "grp", "tailc", "odd")): continue   # nested messages: the scripted encode does not finish in 300 s (one-step harnesses cover them)
            g = msggen.MG(sch, msg, 2)
            Dd = 1
            cpp, ref = msggen.encode_script(g, Dd)
            u = ctx.lower("c01enc_%s_%s" % (sch.ns, msg.name), g.cpp_prelude() + cpp, std=std, mode=mode, incs=[inc])
            N = g.max_size(0, Dd) + 1
            body = "  enum { N = %d };\n  IN_BYTES(buf, N); unsigned char old[N], exp[N]; verif_copy(old, buf, N); verif_copy(exp, buf, N);\n" % N
            body += "  u64 vals[40]; u32 cnts[8], lens[8];\n  IN_BYTES(vb, 40 * 8); for (unsigned i = 0; i < 40; i++) vals[i] = ref_rd(vb + 8 * i, 8, 0);\n"
            body += "  IN_BYTES(cb, 8); IN_BYTES(lb, 8); for (unsigned i = 0; i < 8; i++) { cnts[i] = cb[i]; lens[i] = lb[i]; VASSUME(cnts[i] <= 2 && lens[i] <= %d); }\n" % Dd
            body += "".join("  " + l + "\n" for l in ref)
            body += "  VASSUME(vi <= 40 && ci <= 8 && li <= 8);\n"
            body += "  CALL(encode_%s(buf, N, (unsigned char *)vals, (unsigned char *)cnts, (unsigned char *)lens));\n" % g.M
            body += '  VASSERT(!verif_aborted, "an in-order encode that fits the buffer must not invoke the handler");\n'
            body += '  for (unsigned i = 0; i < N; i++) VASSERT(buf[i] == exp[i], "after an in-order scripted encode the buffer is exactly the reference SBE image; bytes of no written member keep their previous value");\n'
            hs.append(P.Harness("%s_%s_encode_script_%s_cxx%s" % (sch.ns, msg.name, mode, std), hgen.harness([u], body), [u], unwind=5, cap=ctx.q(600, 1200), backends=["minisat", "kissat"],
                                extra_flags=["--no-standard-checks"],
                                desc="message %s.%s: scripted in-order encode (fill_message_header, all setters, fill_group_header + entries, data resize + bytes) == reference image" % (sch.ns, msg.name),
                                bounds={"N": N, "counts": "<= 2", "data_len": "<= %d" % Dd, "std": "c++" + std, "build": mode}))
    # "data assignments" are part of an encode: every <data> operation that WRITES content (assign family, assign_string, assign_range, push_back, the insert overloads incl.
    # single-pass input ranges, resize with a value) must leave exactly the length prefix + payload the vector model gives -- the C13 one-step obligations, on a selection of
    # length types / byte orders, so that C01 itself reports a wrong payload and not only its sibling check
    import c13
    wops = [k for k, nm in enumerate(c13.OPS) if nm.startswith(("push_back", "insert", "assign", "resize_value", "resize_aliasing"))]
    dsel = ("uint16le_char", "uint8be_uint8") if ctx.quick else ("uint8le_char", "uint16le_char", "uint8be_uint8", "uint32be_int8", "uint64le_char")
    for inst in [i for i in c13.insts() if i[0] in dsel]:
        for std in (("17", "20ce") if ctx.quick else ("11", "17", "20", "20ce")):
            # "20ce": the constant-evaluation model (hgen.CE_FLAGS) of the C++20 path, where every <data> operation is constexpr
            ce = std.endswith("ce"); std = std.replace("ce", "")
            if ce and ctx.quick and inst[0] != dsel[0]: continue
            ud = ctx.lower("c13_consteval" if ce else "c13", c13.cpp([inst]), std=std, mode="checked", extra=hgen.CE_FLAGS if ce else ())
            text = c13.harness(ud, inst, 4, True)
            if ce: std = std + "_consteval"
            for k in wops:
                hs.append(P.Harness("dataop_%s_op%02d_%s_cxx%s" % (inst[0], k, c13.OPS[k], std), text, [ud], unwind=7, cap=ctx.q(600, 1200), defines=["VERIF_WHICH=%d" % k],
                                    desc="<data> %s (%s length, %s): %s writes exactly the length prefix and payload of the vector model, nothing else" % (inst[1], inst[2], "BE" if inst[5] else "LE", c13.OPS[k]),
                                    bounds={"CAP": 4, "source_len": "0..3", "std": "c++" + std, "operation": c13.OPS[k]}))
    # extreme data length: the member after a <data> whose length is at the top of its (uint8) length type
    for (xml, std, mode) in c02.plan(ctx)[:2 if ctx.quick else None]:
        sch, inc = hgen.gen_headers(ctx, xml)
        if not [m_ for m_ in sch.messages if m_.name == "odd"]: continue
        msg = sch.message("odd")
        g = msggen.MG(sch, msg, 1)
        u = ctx.lower("c01_%s_%s" % (sch.ns, msg.name), g.cpp_prelude() + g.cpp_getset(setters=True) + g.cpp_geom(mutators=True), std=std, mode=mode, incs=[inc])
        N = g.max_size(0, 255) - 255 + 6
        lv = g.levels[0]
        for a in [x for x in arms_for(g, lv) if x[0] in ("dresize_db", "dset_db")] :
            hs.append(P.Harness("%s_odd_bigdata_%s_%s_cxx%s" % (sch.ns, a[0], mode, std), harness(u, g, [a], N, 0, 255), [u], unwind=4,
                                cap=ctx.q(600, 1200), backends=["minisat", "kissat"], extra_flags=["--no-standard-checks"],
                                meta={"big_loops": ["ref_walk_odd.%d" % x for x in range(16)]},
                                desc="message %s.odd: %s on the data member that follows a <data> of ANY uint8 length 0..255 (incl. the type maximum)" % (sch.ns, a[0]),
                                bounds={"N": N, "G": 1, "D": "0..255 (first data), rest limited by N", "std": "c++" + std, "build": mode}))
    return hs
