"""C18 -- traits and tags mirror the schema (partial: see EXPLANATION).

Every documented trait of every entity of the verification schemas is lowered (real generated header + sbepp.hpp -> IR -> C) and
compared by cbmc with the value an independent walk over the XML (ElementTree + engine/sbemodel.py for layout numbers) expects.
Traits are nullary, so the only symbolic quantity is the character index of the string-valued traits; everything else is a closed
obligation (stated as such in the evidence).  Type-level facts (value_type / traits_tag / encoding types / tag lists / tag
predicates) are constant-folded by the compiler into 0/1 and discharged the same way."""
import os, re, concurrent.futures as cf
import xml.etree.ElementTree as ET
import hgen, common
from hgen import P, M

EXPLANATION = ("C18 quantifies over schemas only: every trait is a nullary constexpr function, a type alias or a type list. The schemas are enumerated "
               "(vs_traits.xml was written for this check; vs_msg/vs_msg2 add structural variety), each documented trait expression "
               "sbepp::<kind>_traits<Tag>::member() is instantiated from the header the rebuilt sbeppc generates, lowered to IR, translated and compared by cbmc with "
               "the value derived independently from the XML (ElementTree walk; offsets/block lengths/sizes from engine/sbemodel.py). String traits are compared "
               "for EVERY character index (symbolic index, terminator included); numeric traits, type identities (is_same folded to 0/1 by the front end), tag-kind "
               "predicates and tag lists are closed obligations -- the solver decides formulas without free variables, which is stated here so that nobody mistakes "
               "it for an input-space result. A documented trait that does not compile for an accepted schema is reported from the compiler's verdict (not a solver verdict). "
               "Not asserted: `deprecated`/description/semantic_type inherited by <ref> members, presence of fields whose own presence attribute disagrees with a named type's, "
               "min/max/null (decided under C16), size_bytes(...) formulas (C05), type_tags order (documented as unordered: compared as a set).")

CT = {"char": "char", "int8": "::std::int8_t", "uint8": "::std::uint8_t", "int16": "::std::int16_t", "uint16": "::std::uint16_t", "int32": "::std::int32_t",
      "uint32": "::std::uint32_t", "int64": "::std::int64_t", "uint64": "::std::uint64_t", "float": "float", "double": "double"}
PRES = {"required": 0, "optional": 1, "constant": 2}
KINDS = ["type", "enum", "enum_value", "set", "set_choice", "composite", "field", "group", "data", "message", "schema"]


def local(tag):
    return tag.split("}")[-1]


class Gen:
    def __init__(s, xml_path, sch):
        s.sch = sch; s.ns = sch.ns
        s.root = ET.parse(xml_path).getroot()
        s.obl = []     # (entity, kind 'n'|'s'|'t', c++ expression, expected, text)
        s.raw = {}
        for t in s.root.findall("types"):
            for el in t: s.raw[el.get("name").lower()] = el
        s.tagkind = []  # (tag, kind) for the predicate matrix

    # ------------------------------------------------------------------ obligations
    def num(s, ent, expr, exp, what): s.obl.append((ent, "n", "(::std::uint64_t)(%s)" % expr, int(exp) & ((1 << 64) - 1), what))
    def string(s, ent, expr, exp, what): s.obl.append((ent, "s", expr, exp, what))
    def same(s, ent, a, b, what): s.obl.append((ent, "t", "::std::is_same<%s, %s>::value" % (a, b), 1, what))
    def true(s, ent, expr, what, exp=1): s.obl.append((ent, "t", expr, exp, what))

    def common(s, ent, tr, el, name=None, descr=True, since=True, dep=True):
        s.string(ent, tr + "::name()", name or el.get("name"), "name() == the name attribute")
        if descr: s.string(ent, tr + "::description()", el.get("description", ""), "description() == the description attribute ('' when absent)")
        if since: s.num(ent, tr + "::since_version()", int(el.get("sinceVersion", "0")), "since_version() == sinceVersion (0 when absent)")
        if dep and el.get("deprecated") is not None: s.num(ent, tr + "::deprecated()", int(el.get("deprecated")), "deprecated() == the deprecated attribute")

    def prim_of(s, enc):
        return enc if enc in M.PRIM else s.raw[enc.lower()].get("primitiveType")

    def tlist(s, ent, alias, tags, what, ordered=True):
        if ordered:
            s.same(ent, alias, "::sbepp::type_list<%s>" % ", ".join(tags), what)
        else:
            s.true(ent, "(tl_size<%s>::value == %d)" % (alias, len(tags)), what + " (size)")
            for t in tags: s.true(ent, "tl_has<%s, %s>::value" % (t, alias), what + " (contains %s)" % t.split("::")[-1])

    # ------------------------------------------------------------------ encodings
    def encoding(s, el, tag, mem=None, inline=False):
        """el: <type>/<enum>/<set>/<composite>/<ref> element; tag: its tag path; mem: sbemodel Member when inside a composite"""
        k = local(el.tag); ent = tag
        if k == "ref":
            target = s.raw[el.get("type").lower()]; tk = local(target.tag)
            tr = "::sbepp::%s_traits<%s>" % ({"type": "type", "enum": "enum", "set": "set", "composite": "composite"}[tk], tag)
            s.string(ent, tr + "::name()", el.get("name"), "<ref>: name() == the ref's name")
            s.num(ent, tr + "::since_version()", int(el.get("sinceVersion", "0")), "<ref>: since_version() == the ref's sinceVersion")
            if mem is not None and not mem.is_constant: s.num(ent, tr + "::offset()", mem.offset, "<ref>: offset() == offset inside the composite")
            if el.get("deprecated") is not None: s.num(ent, tr + "::deprecated()", int(el.get("deprecated")), "<ref>: deprecated() == the ref's own deprecated attribute")
            s.tagkind.append((tag, tk))
            return
        if k == "type":
            tr = "::sbepp::type_traits<%s>" % tag
            s.common(ent, tr, el)
            pres = el.get("presence", "required")
            s.num(ent, "(int)" + tr + "::presence()", PRES[pres], "presence() == the presence attribute (required when absent)")
            s.true(ent, "(%s::presence() == ::sbepp::field_presence::%s)" % (tr, pres), "presence() enumerator")
            s.num(ent, tr + "::length()", int(el.get("length", "1")), "length() == the length attribute (1 when absent)")
            s.string(ent, tr + "::semantic_type()", el.get("semanticType", ""), "semantic_type()")
            s.string(ent, tr + "::character_encoding()", el.get("characterEncoding", ""), "character_encoding()")
            s.same(ent, "typename %s::primitive_type" % tr, CT[el.get("primitiveType")], "primitive_type == the C++ type of primitiveType")
            if inline and mem is not None and pres != "constant": s.num(ent, tr + "::offset()", mem.offset, "offset() == offset inside the composite")
            if int(el.get("length", "1")) == 1 and pres != "constant" and el.get("primitiveType") not in ("float", "double"):
                for a, f in (("minValue", "min_value"), ("maxValue", "max_value")):
                    if el.get(a) is not None: s.num(ent, "%s::%s()" % (tr, f), int(el.get(a)), "%s() == explicit %s" % (f, a))
                if pres == "optional" and el.get("nullValue") is not None: s.num(ent, tr + "::null_value()", int(el.get("nullValue")), "null_value() == explicit nullValue")
            if not (pres == "constant" and int(el.get("length", "1")) == 1) and int(el.get("length", "1")) == 1:
                s.same(ent, "::sbepp::traits_tag_t<typename %s::value_type>" % tr, tag, "traits_tag<value_type> maps back to the tag")
            s.tagkind.append((tag, "type"))
        elif k == "enum":
            tr = "::sbepp::enum_traits<%s>" % tag
            s.common(ent, tr, el)
            prim = s.prim_of(el.get("encodingType"))
            s.same(ent, "typename %s::encoding_type" % tr, CT[prim], "encoding_type == the C++ type of the (resolved) encodingType")
            s.same(ent, "typename ::std::underlying_type<typename %s::value_type>::type" % tr, CT[prim], "value_type is a scoped enum over the encoding type")
            s.same(ent, "::sbepp::traits_tag_t<typename %s::value_type>" % tr, tag, "traits_tag<value_type> maps back to the tag")
            if inline and mem is not None: s.num(ent, tr + "::offset()", mem.offset, "offset() == offset inside the composite")
            vts = []
            for v in el.findall("validValue"):
                vt = tag + "::" + v.get("name"); vts.append(vt)
                vtr = "::sbepp::enum_value_traits<%s>" % vt
                s.common(vt, vtr, v)
                txt = (v.text or "").strip()
                val = ord(txt) if prim == "char" else int(txt)
                s.num(vt, "static_cast<%s>(%s::value())" % (CT[prim], vtr), val, "value() == the validValue text")
                s.true(vt, "(%s::value() == %s::value_type::%s)" % (vtr, tr, v.get("name")), "value() is the enumerator of that name")
                s.tagkind.append((vt, "enum_value"))
            s.tlist(ent, "typename %s::value_tags" % tr, vts, "value_tags lists the validValues in schema order")
            s.tagkind.append((tag, "enum"))
        elif k == "set":
            tr = "::sbepp::set_traits<%s>" % tag
            s.common(ent, tr, el)
            prim = s.prim_of(el.get("encodingType"))
            s.same(ent, "typename %s::encoding_type" % tr, CT[prim], "encoding_type == the C++ type of the (resolved) encodingType")
            s.same(ent, "::sbepp::traits_tag_t<typename %s::value_type>" % tr, tag, "traits_tag<value_type> maps back to the tag")
            if inline and mem is not None: s.num(ent, tr + "::offset()", mem.offset, "offset() == offset inside the composite")
            cts = []
            for c in el.findall("choice"):
                ct = tag + "::" + c.get("name"); cts.append(ct)
                ctr = "::sbepp::set_choice_traits<%s>" % ct
                s.common(ct, ctr, c)
                s.num(ct, ctr + "::index()", int((c.text or "").strip()), "index() == the choice text")
                s.tagkind.append((ct, "set_choice"))
            s.tlist(ent, "typename %s::choice_tags" % tr, cts, "choice_tags lists the choices in schema order")
            s.tagkind.append((tag, "set"))
        elif k == "composite":
            tr = "::sbepp::composite_traits<%s>" % tag
            s.common(ent, tr, el)
            s.string(ent, tr + "::semantic_type()", el.get("semanticType", ""), "semantic_type()")
            comp = mem.typ if mem is not None else s.sch.resolve(el.get("name"))
            s.num(ent, tr + "::size_bytes()", comp.size, "size_bytes() == size of the composite (SBE layout rules)")
            s.same(ent, "::sbepp::traits_tag_t<typename %s::template value_type<char>>" % tr, tag, "traits_tag<value_type<Byte>> maps back to the tag")
            if inline and mem is not None: s.num(ent, tr + "::offset()", mem.offset, "offset() == offset inside the enclosing composite")
            ets = []
            for c in el:
                ct = tag + "::" + c.get("name"); ets.append(ct)
                s.encoding(c, ct, comp.member(c.get("name")), inline=True)
            s.tlist(ent, "typename %s::element_tags" % tr, ets, "element_tags lists the members in schema order")
            s.tagkind.append((tag, "composite"))

    # ------------------------------------------------------------------ levels
    def level(s, el, lvl, tag, tr):
        fts, gts, dts = [], [], []
        for c in el:
            k = local(c.tag); ct = tag + "::" + c.get("name")
            if k == "field":
                fts.append(ct); f = [x for x in lvl.fields if x.name == c.get("name")][0]
                ftr = "::sbepp::field_traits<%s>" % ct
                s.common(ct, ftr, c)
                s.num(ct, ftr + "::id()", int(c.get("id")), "id() == the id attribute")
                if not f.is_constant: s.num(ct, ftr + "::offset()", f.offset, "offset() == the field's offset inside its block (explicit or running offset)")
                tname = c.get("type"); fp = c.get("presence")
                if tname in M.PRIM:
                    exp = fp or "required"
                    if exp != "constant":
                        bt = "::sbepp::%s%s_t" % (tname, "_opt" if exp == "optional" else "")
                        s.same(ct, "typename %s::value_type_tag" % ftr, bt, "value_type_tag of a built-in typed field == the built-in type")
                        s.same(ct, "typename %s::value_type" % ftr, bt, "value_type of a built-in typed field == the built-in type")
                else:
                    tel = s.raw[tname.lower()]; tk = local(tel.tag)
                    if tk == "type":
                        tp = tel.get("presence", "required"); exp = tp if (fp is None or fp == tp) else None
                    elif tk == "enum": exp = {None: "required", "required": "required", "constant": "constant"}.get(fp)   # an enum field declared optional: sbeppc reports required (a choice of its own): not asserted
                    elif tk == "set": exp = "required" if fp in (None, "required") else None
                    else: exp = fp or "required"   # composite field: the field's own presence attribute is the only statement the XML makes
                    if not (tk == "type" and tel.get("presence") == "constant") and fp != "constant":   # value_type_tag is documented as unavailable for numeric constants; constants of any kind are left out
                        s.same(ct, "typename %s::value_type_tag" % ftr, "%s::schema::types::%s" % (s.ns, tel.get("name")), "value_type_tag == the tag of the field's type")
                if exp: s.true(ct, "(%s::presence() == ::sbepp::field_presence::%s)" % (ftr, exp), "presence() == %s" % exp)
                s.tagkind.append((ct, "field"))
            elif k == "group":
                gts.append(ct); g = [x for x in lvl.groups if x.name == c.get("name")][0]
                gtr = "::sbepp::group_traits<%s>" % ct
                s.common(ct, gtr, c)
                s.num(ct, gtr + "::id()", int(c.get("id")), "id()")
                s.num(ct, gtr + "::block_length()", g.block_length, "block_length() == explicit blockLength or the computed block size")
                s.string(ct, gtr + "::semantic_type()", c.get("semanticType", ""), "semantic_type()")
                dt = "%s::schema::types::%s" % (s.ns, s.raw[c.get("dimensionType", "groupSizeEncoding").lower()].get("name"))
                s.same(ct, "typename %s::dimension_type_tag" % gtr, dt, "dimension_type_tag == the tag of dimensionType")
                s.same(ct, "typename %s::template dimension_type<char>" % gtr, "typename ::sbepp::composite_traits<%s>::template value_type<char>" % dt, "dimension_type == the dimension composite")
                s.same(ct, "::sbepp::traits_tag_t<typename %s::template value_type<char>>" % gtr, ct, "traits_tag<group type> == the group tag")
                s.same(ct, "::sbepp::traits_tag_t<typename %s::template entry_type<char>>" % gtr, ct, "traits_tag<entry type> == the enclosing group tag")
                s.level(c, g, ct, gtr)
                s.tagkind.append((ct, "group"))
            elif k == "data":
                dts.append(ct)
                dtr = "::sbepp::data_traits<%s>" % ct
                s.common(ct, dtr, c)
                s.num(ct, dtr + "::id()", int(c.get("id")), "id()")
                tel = s.raw[c.get("type").lower()]
                lel = [x for x in tel if x.get("name") == "length"][0]
                if local(lel.tag) == "ref":   # `length_type`'s tag: for a <ref>-typed length member that is the referred public type
                    lt = "%s::schema::types::%s" % (s.ns, s.raw[lel.get("type").lower()].get("name"))
                else:
                    lt = "%s::schema::types::%s::length" % (s.ns, tel.get("name"))
                s.same(ct, "typename %s::length_type_tag" % dtr, lt, "length_type_tag == tag of the data composite's length member")
                s.same(ct, "typename %s::length_type" % dtr, "typename ::sbepp::type_traits<%s>::value_type" % lt, "length_type == representation type of the length member")
                s.tagkind.append((ct, "data"))
        s.tlist(tag, "typename %s::field_tags" % tr, fts, "field_tags lists the level's fields in schema order")
        s.tlist(tag, "typename %s::group_tags" % tr, gts, "group_tags lists the level's groups in schema order")
        s.tlist(tag, "typename %s::data_tags" % tr, dts, "data_tags lists the level's data members in schema order")

    def run(s):
        ns = s.ns; root = s.root
        st = "%s::schema" % ns; tr = "::sbepp::schema_traits<%s>" % st
        s.string(st, tr + "::package()", root.get("package"), "package()")
        s.num(st, tr + "::id()", int(root.get("id")), "schema id()")
        s.num(st, tr + "::version()", int(root.get("version", "0")), "schema version()")
        s.string(st, tr + "::semantic_version()", root.get("semanticVersion", ""), "semantic_version()")
        s.string(st, tr + "::description()", root.get("description", ""), "schema description()")
        s.true(st, "(%s::byte_order() == ::sbepp::endian::%s)" % (tr, "big" if root.get("byteOrder") == "bigEndian" else "little"), "byte_order()")
        hdr = s.raw[root.get("headerType", "messageHeader").lower()].get("name")
        s.same(st, "typename %s::header_type_tag" % tr, "%s::types::%s" % (st, hdr), "header_type_tag == tag of headerType")
        s.same(st, "typename %s::template header_type<char>" % tr, "typename ::sbepp::composite_traits<%s::types::%s>::template value_type<char>" % (st, hdr), "header_type == the header composite")
        s.tagkind.append((st, "schema"))
        tts = []
        for t in root.findall("types"):
            for el in t:
                tag = "%s::types::%s" % (st, el.get("name")); tts.append(tag)
                s.encoding(el, tag)
        s.tlist(st, "typename %s::type_tags" % tr, tts, "type_tags is the set of public types (documented as unordered)", ordered=False)
        mts = []
        for el in root:
            if local(el.tag) != "message": continue
            mt = "%s::messages::%s" % (st, el.get("name")); mts.append(mt)
            m = s.sch.message(el.get("name"))
            mtr = "::sbepp::message_traits<%s>" % mt
            s.common(mt, mtr, el)
            s.num(mt, mtr + "::id()", int(el.get("id")), "message id()")
            s.num(mt, mtr + "::block_length()", m.block_length, "block_length() == explicit blockLength or the computed block size")
            s.string(mt, mtr + "::semantic_type()", el.get("semanticType", ""), "semantic_type()")
            s.same(mt, "typename %s::schema_tag" % mtr, st, "schema_tag")
            s.same(mt, "::sbepp::traits_tag_t<typename %s::template value_type<char>>" % mtr, mt, "traits_tag<message type> == the message tag")
            s.level(el, m, mt, mtr)
            s.tagkind.append((mt, "message"))
        s.tlist(st, "typename %s::message_tags" % tr, mts, "message_tags lists the messages in schema order")
        # tag-kind predicates: every tag is classified by exactly the predicate of its kind
        for tag, kind in s.tagkind:
            for k in KINDS:
                s.true(tag, "::sbepp::is_%s_tag<%s>::value" % (k, tag), "is_%s_tag<%s>" % (k, kind), exp=1 if k == kind else 0)
        return s


PRE = hgen.W_PRELUDE + r'''
#include <%(ns)s/%(ns)s.hpp>
template<typename L> struct tl_size;
template<typename... T> struct tl_size<::sbepp::type_list<T...>> { static constexpr unsigned value = sizeof...(T); };
template<typename X, typename L> struct tl_has;
template<typename X> struct tl_has<X, ::sbepp::type_list<>> { static constexpr bool value = false; };
template<typename X, typename H, typename... T> struct tl_has<X, ::sbepp::type_list<H, T...>> { static constexpr bool value = ::std::is_same<X, H>::value || tl_has<X, ::sbepp::type_list<T...>>::value; };
'''


def wrapper(k, o):
    ent, kd, expr, exp, what = o
    if kd == "s": return "W int s_%d(unsigned i){ return (unsigned char)(%s)[i]; }\n" % (k, expr)
    if kd == "n": return "W uint64_t n_%d(){ return %s; }\n" % (k, expr)
    return "W int t_%d(){ return (%s) ? 1 : 0; }\n" % (k, expr)


def cstr(x):
    return '"' + "".join(c if (32 <= ord(c) < 127 and c not in '"\\?') else "\\%03o" % ord(c) for c in x.encode("utf-8").decode("latin-1")) + '"'


def harness_text(u, obl, idxs):
    body = "  IN(u32, i);\n"
    for k in idxs:
        ent, kd, expr, exp, what = obl[k]
        msg = ("%s: %s" % (ent.split("::schema::")[-1] if "::schema::" in ent else ent, what)).replace('"', "'").replace("\\", "/")
        if kd == "s":
            n = len(exp.encode("utf-8"))
            body += '  { static const unsigned char e[] = %s; int c = -1; if (i <= %d) { CALL(c = s_%d(i)); VASSERT(c == e[i], "%s [every character, terminator included]"); } }\n' % (cstr(exp), n, k, msg)
        elif kd == "n":
            body += '  { u64 v = 0; CALL(v = n_%d()); VASSERT(v == 0x%xULL, "%s"); }\n' % (k, exp, msg)
        else:
            body += '  { int v = -1; CALL(v = t_%d()); VASSERT(v == %d, "%s"); }\n' % (k, exp, msg)
    return hgen.harness([u], body)


def syntax_ok(ctx, flags, text):
    rc, so, se, dt = P.sh(["clang++-14"] + flags + ["-fsyntax-only", "-x", "c++", "-"], timeout=300, stdin=text.encode())
    return rc == 0, se


def build(ctx):
    hs = []
    ctx.assumptions = ["traits are nullary: apart from the character index of string traits every obligation is closed (no free variable); the schemas are enumerated",
                       "type identities / tag lists / predicates are folded to 0/1 by the clang front end before lowering (the solver confirms the folded constant)"]
    plan = ctx.q([("vs_traits.xml", "17"), ("vs_traits.xml", "11"), ("vs_msg2_le.xml", "17"), ("vs_msg_be.xml", "17"), ("vs_exotic.xml", "17"), ("vs_hdr_j.xml", "17")],
                 [("vs_traits.xml", s) for s in ("11", "14", "17", "20")] + [(x, "17") for x in ("vs_msg2_le.xml", "vs_msg2_be.xml", "vs_msg_le.xml", "vs_msg_be.xml", "vs_hdr_a.xml",
                  "vs_hdr_b.xml", "vs_hdr_c.xml", "vs_hdr_d.xml", "vs_hdr_e.xml", "vs_dims.xml", "vs_data_le.xml", "vs_opt.xml", "vs_sets.xml", "vs_exotic.xml", "vs_hdr_g.xml", "vs_hdr_j.xml")])
    plan = hgen.plan_env(plan, 2)
    ctx.extra = {"obligations_by_kind": {}, "schemas": []}
    for xml, std in plan:
        sch, inc = hgen.gen_headers(ctx, xml)
        g = Gen(ctx.schema(xml), sch).run()
        obl = g.obl
        pre = PRE % {"ns": sch.ns}
        text = pre + "".join(wrapper(k, o) for k, o in enumerate(obl))
        name = "c18_%s" % xml[:-4]
        u = ctx.try_lower(name, text, std=std, mode="unchecked", incs=[inc])
        bad = set()
        if "error" in u:
            # which documented trait expression does not compile?  (compiler verdict, not a solver verdict)
            flags = ctx.slot.lower_flags(std, "unchecked", False, ["-I" + inc])
            ok0, se0 = syntax_ok(ctx, flags, pre)
            if not ok0:
                ctx.lower(name, text, std=std, mode="unchecked", incs=[inc])   # attributes the failure (generated header vs engine)
                raise P.EngineError("unit %s does not lower" % name)
            with cf.ThreadPoolExecutor(max_workers=P.NPROC) as ex:
                res = list(ex.map(lambda ko: syntax_ok(ctx, flags, pre + wrapper(*ko)), enumerate(obl)))
            for k, (ok, se) in enumerate(res):
                if not ok: bad.add(k)
            if not bad: raise P.EngineError("unit %s does not lower but every wrapper compiles alone: %s" % (name, u.get("stderr", "")[-1500:]))
            ents = sorted({obl[k][0] for k in bad})
            d = os.path.join(common.VERIF, "replays", "C18", "trait_does_not_compile_%s_cxx%s" % (xml[:-4], std)); os.makedirs(d, exist_ok=True)
            open(os.path.join(d, "w.cpp"), "w").write(pre + "".join(wrapper(k, obl[k]) for k in sorted(bad)))
            first = res[min(bad)][1]
            open(os.path.join(d, "compiler_output.txt"), "w").write(first)
            open(os.path.join(d, "replay.sh"), "w").write("#!/bin/sh\nclang++-14 %s -fsyntax-only %s/w.cpp 2>&1 | head -40; exit 1\n" % (" ".join(flags), d))
            what = "documented trait expression(s) of accepted schema %s do not compile (c++%s): %s" % (xml, std, "; ".join(obl[k][2][:120] for k in sorted(bad)[:6]))
            ctx.pre_violations.append((what, d))
            ctx.observations.append({"what": what, "decided_by": "clang front end (not a solver verdict)", "first_error": first[:600]})
            text = pre + "".join(wrapper(k, o) for k, o in enumerate(obl) if k not in bad)
            u = ctx.lower(name + "_rest", text, std=std, mode="unchecked", incs=[inc])
        live = [k for k in range(len(obl)) if k not in bad]
        # one harness per ~150 obligations (keeps counterexample reports small and the runs parallel)
        ents = []
        for k in live:
            if not ents or len(ents[-1]) >= 150: ents.append([])
            ents[-1].append(k)
        for ci, idxs in enumerate(ents):
            kinds = {}
            for k in idxs: kinds[obl[k][1]] = kinds.get(obl[k][1], 0) + 1
            hs.append(P.Harness("traits_%s_cxx%s_%d" % (xml[:-4], std, ci), harness_text(u, obl, idxs), [u], unwind=2,
                                desc="%d documented trait expressions of %s (c++%s) == the values derived from the XML: %d string traits (every character index), %d numeric, %d type-level/predicate" % (
                                    len(idxs), xml, std, kinds.get("s", 0), kinds.get("n", 0), kinds.get("t", 0)),
                                bounds={"schema": xml, "std": "c++" + std, "string index": "0..len (symbolic)", "free variables otherwise": "none (closed obligations)"}))
        ok = ctx.extra["obligations_by_kind"]
        for o in obl: ok[o[1]] = ok.get(o[1], 0) + 1
        ctx.extra["schemas"].append({"schema": xml, "std": std, "entities": len({o[0] for o in obl}), "obligations": len(obl), "not_compiling": len(bad)})
    ctx.extra["obligations_by_kind"] = {"string (symbolic index)": ctx.extra["obligations_by_kind"].get("s", 0), "numeric (closed)": ctx.extra["obligations_by_kind"].get("n", 0),
                                        "type-level / predicate (closed, folded by the front end)": ctx.extra["obligations_by_kind"].get("t", 0)}
    return hs
