"""C11 (partial) -- read-only views cannot mutate the buffer: solver half (no read-only entry point writes) + compile-time half as static_asserts."""
import os, shutil
import hgen, msggen, c02, c04, c19
from hgen import P, M
from msggen import SZ, pn, idx

EXPLANATION = ("Solver half (claimed): every getter, size query, group/data observer, cursor getter of all five kinds, visit/visit_children with a recording visitor and "
               "size_bytes_checked on views whose byte type is const leaves every byte of a symbolic buffer unchanged (and still returns the reference values). "
               "Type-level half: decided by overload resolution, not by values -- there is no solver query; the lowered wrapper TU contains generated static_asserts (detection idiom, "
               "each with a positive control on the mutable view) for every setter, resize, header filler, data mutator and cursor setter on const views and for the conversion "
               "directions of views and cursors; a failing static_assert stops the lowering and is reported with the compiler diagnostic, recorded as 'decided by the clang front end'.")

IDIOM = r'''
template<class...> struct vt_ { using type = void; };
#define CAN(NAME, EXPR) template<class V, class = void> struct NAME : std::false_type {}; template<class V> struct NAME<V, typename vt_<decltype(EXPR)>::type> : std::true_type {};
#define DV(T) std::declval<T>()
'''


def static_asserts(g):
    ns, Mn = g.ns, g.M
    MV, CV = "%s::messages::%s<char>" % (ns, Mn), "%s::messages::%s<const char>" % (ns, Mn)
    o = [IDIOM]
    n = [0]
    probes = []
    def chk(expr_tpl, what, sub="V"):
        k = n[0]; n[0] += 1
        o.append("CAN(can_%s_%d, %s)" % (Mn, k, expr_tpl))
        o.append('static_assert(can_%s_%d<%s>::value, "positive control: %s is available on a mutable view");' % (Mn, k, MV, what))
        o.append('static_assert(!can_%s_%d<%s>::value, "%s must be rejected for a const byte type");' % (Mn, k, CV, what))
    for lv in g.levels:
        e = "DV(V)"
        for k_, gname in enumerate(lv.path):
            e = "(*%s.%s().begin())" % (e, gname)
        for lf in lv.leaves:
            if lf.const or lf.kind == "array": continue
            par = lf.parent_expr(e); nm = lf.chain[-1]
            chk("%s.%s(DV(decltype(%s.%s())))" % (par, nm, par, nm), "setter %s.%s" % (lv.name, lf.name))
            if len(lf.chain) == 1:
                chk("%s.%s(DV(decltype(%s.%s())), DV(sbepp::cursor<char>&))" % (par, nm, par, nm), "cursor setter %s.%s" % (lv.name, lf.name))
                # a more-const cursor on a MUTABLE view must not give access to the setter either (plain and through every cursor_ops wrapper)
                for wn, wr in (("plain", "DV(sbepp::cursor<const char>&)"), ("init", "sbepp::cursor_ops::init(DV(sbepp::cursor<const char>&))"),
                               ("dont_move", "sbepp::cursor_ops::dont_move(DV(sbepp::cursor<const char>&))"), ("init_dont_move", "sbepp::cursor_ops::init_dont_move(DV(sbepp::cursor<const char>&))"),
                               ("skip", "sbepp::cursor_ops::skip(DV(sbepp::cursor<const char>&))")):
                    k2 = n[0]; n[0] += 1
                    o.append("CAN(can_%s_%d, %s.%s(DV(decltype(%s.%s())), %s))" % (Mn, k2, par, nm, par, nm, wr))
                    o.append('static_assert(!can_%s_%d<%s>::value, "cursor setter %s.%s through a const-byte cursor (%s) on a mutable view must be rejected");' % (Mn, k2, MV, lv.name, lf.name, wn))
                tag = "%s::schema::messages::%s::%s" % (ns, "::".join((Mn,) + lv.path), nm)
                chk("sbepp::set_by_tag<%s>(%s, DV(decltype(%s.%s())))" % (tag, par, par, nm), "set_by_tag %s.%s" % (lv.name, lf.name))
        for lf in lv.leaves:
            if lf.kind == "array" and not lf.const:
                a = lf.expr(e)
                chk("%s.fill('x')" % a, "array fill %s" % lf.name); chk("%s.assign_string(\"\")" % a, "array assign_string %s" % lf.name)
                chk("%s[0] = 'x'" % a, "array element store %s" % lf.name)
                # byte types that are const AND volatile are read-only as well: element references must stay const-qualified
                for acc, what in (("%s[0] = 'x'", "operator[]"), ("%s.front() = 'x'", "front()"), ("%s.back() = 'x'", "back()"), ("*%s.data() = 'x'", "*data()"),
                                  ("*%s.begin() = 'x'", "*begin()"), ("*%s.rbegin() = 'x'", "*rbegin()"), ("%s.raw()[0] = DV(typename decltype(%s.raw())::value_type)", "raw()[0]")):
                    k3 = n[0]; n[0] += 1
                    ex = acc % ((a, a) if acc.count("%s") == 2 else a)
                    o.append("CAN(can_%s_%d, %s)" % (Mn, k3, ex))
                    o.append('static_assert(!can_%s_%d<%s>::value && !can_%s_%d<%s::messages::%s<const volatile char>>::value, "store through %s of array %s must be rejected for const and for const volatile byte types");' % (
                        Mn, k3, CV, Mn, k3, ns, Mn, what, lf.name))
        for gr in lv.node.groups:
            ge = "%s.%s()" % (e, gr.name)
            # group resize()/clear() are not SFINAE-constrained: a const view rejects them with a hard error when the body is instantiated,
            # so they are checked by negative compile probes (below), not by the detection idiom
            probes.append(("%s.resize(1);" % ge.replace("DV(V)", "v"), "group resize %s" % gr.name))
            probes.append(("%s.clear();" % ge.replace("DV(V)", "v"), "group clear %s" % gr.name))
            chk("sbepp::fill_group_header(%s, 1)" % ge, "fill_group_header %s" % gr.name)
        for dt in lv.node.data:
            de = "%s.%s()" % (e, dt.name)
            for acc, what in (("%s[0] = DV(typename decltype(%s)::value_type)", "operator[]"), ("*%s.begin() = DV(typename decltype(%s)::value_type)", "*begin()"), ("*%s.data() = DV(typename decltype(%s)::value_type)", "*data()")):
                k3 = n[0]; n[0] += 1
                o.append("CAN(can_%s_%d, %s)" % (Mn, k3, acc % (de, de)))
                o.append('static_assert(!can_%s_%d<%s>::value && !can_%s_%d<%s::messages::%s<const volatile char>>::value, "store through %s of data %s must be rejected for const and for const volatile byte types");' % (
                    Mn, k3, CV, Mn, k3, ns, Mn, what, dt.name))
            for op, what in (("resize(1)", "resize"), ("push_back('x')", "push_back"), ("pop_back()", "pop_back"), ("clear()", "clear"), ("assign_string(\"\")", "assign_string"),
                             ("erase(%s.begin())" % de, "erase"), ("insert(%s.begin(), 'x')" % de, "insert"), ("assign(1, 'x')", "assign")):
                chk("%s.%s" % (de, op), "data %s %s" % (dt.name, what))
    # conversion directions of every kind of sub-view (group, entry, composite, array, data)
    root = g.levels[0]
    subs = ["DV(V).%s()" % gr.name for gr in root.node.groups] + ["(*DV(V).%s().begin())" % gr.name for gr in root.node.groups] + ["DV(V).%s()" % dt.name for dt in root.node.data]
    subs += ["DV(V)" + "".join(".%s()" % c for c in chain) for (chain, off, ct) in root.comps] + [lf.expr("DV(V)") for lf in root.leaves if lf.kind == "array" and not lf.const]
    for k, e_ in enumerate(subs):
        mt = "decltype(%s)" % e_.replace("DV(V)", "DV(%s)" % MV); ct_ = "decltype(%s)" % e_.replace("DV(V)", "DV(%s)" % CV)
        o.append('static_assert(std::is_convertible<%s, %s>::value, "sub-view %d converts towards const");' % (mt, ct_, k))
        o.append('static_assert(!std::is_convertible<%s, %s>::value, "sub-view %d (%s) must not convert from const to mutable");' % (ct_, mt, k, e_.replace('"', "")))
        n[0] += 1
    chk("sbepp::fill_message_header(DV(V))", "fill_message_header")
    o.append('static_assert(std::is_convertible<%s, %s>::value, "views convert implicitly towards const");' % (MV, CV))
    o.append('static_assert(!std::is_convertible<%s, %s>::value, "views must not convert from const to mutable");' % (CV, MV))
    o.append('static_assert(std::is_convertible<sbepp::cursor<char>, sbepp::cursor<const char>>::value && !std::is_convertible<sbepp::cursor<const char>, sbepp::cursor<char>>::value, "cursors convert only towards const");')
    return "\n".join(o) + "\n", n[0], probes


def build(ctx):
    hs = []
    G, D = 2, 1
    ctx.assumptions = ["solver half: const-byte views over an arbitrary image within the geometry bounds (numInGroup <= %d, data length <= %d); buffer compared byte by byte after the call" % (G, D),
                       "type-level half is NOT a solver verdict: generated static_asserts evaluated by clang while lowering (observations_not_solver_verdicts)"]
    plan = [("vs_msg_le.xml", "17"), ("vs_msg2_be.xml", "20")] if ctx.quick else [(x, s) for s in ("11", "14", "17", "20") for x in ("vs_msg_le.xml", "vs_msg_be.xml")] + [("vs_msg2_le.xml", "17"), ("vs_msg2_be.xml", "20")]
    plan = hgen.plan_env(plan, 2)
    nsa = 0
    nprobe = [0]
    for (xml, std) in plan:
        sch, inc = hgen.gen_headers(ctx, xml)
        for msg in sch.messages:
            if ctx.quick and msg.name in c02.QUICK_SKIP: continue
            g = msggen.MG(sch, msg, G); g.const_views = True
            sa, cnt, probes = static_asserts(g)
            tags, lines, capn = msggen.visit_model(g)
            cpp = g.cpp_prelude() + sa + g.cpp_getset(setters=False) + g.cpp_geom(mutators=False, sizes=True) + g.cpp_cursor()
            cpp = cpp.replace("sbepp::cursor<char> c;", "sbepp::cursor<const char> c;")
            u = ctx.try_lower("c11_%s_%s" % (sch.ns, msg.name), cpp, std=std, mode="checked", incs=[inc])
            if "error" in u:
                d = os.path.join(hgen.P.VERIF, "replays", "C11", "static_%s_%s_cxx%s" % (sch.ns, msg.name, std)); os.makedirs(d, exist_ok=True)
                open(os.path.join(d, "compiler_output.txt"), "w").write(u.get("stderr", u["error"])); shutil.copy(u["cpp"], d)
                open(os.path.join(d, "replay.sh"), "w").write("#!/bin/sh\ncat %s/compiler_output.txt; exit 1\n" % d)
                ctx.pre_violations.append(("const-correctness static_assert (or the const-view TU) fails for %s.%s under c++%s -- decided by the clang front end, not a solver verdict: %s" % (
                    sch.ns, msg.name, std, " ".join(u.get("stderr", u["error"]).split("\n")[:6])[:500]), d))
                continue
            nsa += cnt
            # negative compile probes (mutable view must compile, const view must not)
            for (stmt, what) in probes:
                res = []
                for byte, expect_ok in (("char", True), ("const char", False)):
                    src = g.cpp_prelude() + "void probe(%s::messages::%s<%s> v){ %s }\n" % (sch.ns, msg.name, byte, stmt)
                    f = ctx.slot.path("probes", "c11_%s_%s_%d.cpp" % (msg.name, "c" if not expect_ok else "m", abs(hash(src)) % 10**8))
                    open(f, "w").write(src)
                    rc, so, se, dt = P.sh(["clang++-14", "-std=c++" + std, "-fsyntax-only", "-w", "-DSBEPP_DISABLE_ASSERTS", "-I" + os.path.join(P.REPO, "sbepp/src"), "-I" + inc, f], timeout=120)
                    res.append((rc == 0) == expect_ok)
                    if (rc == 0) != expect_ok:
                        d = os.path.join(hgen.P.VERIF, "replays", "C11", "probe_%s_%s" % (msg.name, what.replace(" ", "_"))); os.makedirs(d, exist_ok=True)
                        shutil.copy(f, d); open(os.path.join(d, "compiler_output.txt"), "w").write("rc=%d expected_ok=%s\n%s" % (rc, expect_ok, se[-3000:]))
                        open(os.path.join(d, "replay.sh"), "w").write("#!/bin/sh\ncat %s/compiler_output.txt; exit 1\n" % d)
                        ctx.pre_violations.append(("%s on a %s view of %s.%s: compiler %s it (c++%s) -- decided by the clang front end" % (what, byte, sch.ns, msg.name, "accepts" if rc == 0 else "rejects", std), d))
                nprobe[0] += 1
            N = g.max_size(0, D) + 1
            dynamic = bool(msg.groups or msg.data)
            if msg.name == "nest" and (xml, std) != ("vs_msg_le.xml", "17"): continue   # the deep message: solver half under one configuration (each cursor arm needs up to 15 min); its static_asserts and probes ran above for every configuration
            for lv in g.levels:
                for kind, arms, mk in (("get", c02.leaf_arms(g, lv, sch) + c02.dyn_arms(g, lv), c02.harness), ("cursor", c04.arms_for(g, lv, True), c04.harness)):
                  if not arms: continue
                  groups = [[a] for a in arms] if dynamic else [arms[j:j + 8] for j in range(0, len(arms), 8)]
                  for k, chunk in enumerate(groups):
                    nm = kind + "_" + (chunk[0][0] if dynamic else str(k))
                    hs.append(P.Harness("%s_%s_%s_%s_cxx%s" % (sch.ns, msg.name, lv.name, nm, std), mk(u, g, chunk, N, 0, D), [u], unwind=G + 2,
                                        cap=ctx.q(600, 1200), backends=["minisat", "kissat"], extra_flags=["--no-standard-checks"],
                                        meta={"big_loops": ["ref_walk_%s.%d" % (msg.name, x) for x in range(16)]},
                                        desc="const view of %s.%s level %s: getters %s return the reference values and leave every byte unchanged" % (sch.ns, msg.name, lv.name, [a[0] for a in chunk]),
                                        bounds={"N": N, "G": G, "D": D, "std": "c++" + std}))
    ctx.observations.append({"decided_by": "clang front end while lowering (not a solver verdict)", "static_asserts_evaluated": nsa, "negative_compile_probes": nprobe[0],
                             "what": "every mutator rejected for const bytes (with positive control on the mutable view); conversion directions of views and cursors"})
    return hs
