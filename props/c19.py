"""C19 -- visiting and tag-based access enumerate members faithfully (recording visitor vs. model event sequence)."""
import hgen, msggen, c01, c02
from hgen import P, M
from msggen import SZ, pn, idx


def harness(u, g, lines, capn, N, E, D, fn, with_msg_event):
    body = g.prologue(N, E, D)
    body += "  enum { CAP = %d };\n" % capn
    body += "  struct ev { u32 kind, tag; u64 off, val; }; struct vlog { struct ev *e; u32 n, cap, stop_at; const char *base; };\n"
    body += "  struct ev exp[CAP], got[CAP]; u32 ne = 0;\n"
    body += "  for (unsigned i = 0; i < CAP; i++) { exp[i].kind = 0; exp[i].tag = 0; exp[i].off = 0; exp[i].val = 0; got[i] = exp[i]; }\n"
    body += "#define EXP(k, t, o, v) do { if (ne < CAP) { exp[ne].kind = (k); exp[ne].tag = (t); exp[ne].off = (o); exp[ne].val = (v); } ne++; } while (0)\n"
    if with_msg_event: body += "  EXP(11, 9999, 0, 0);\n"
    body += "".join("  " + l + "\n" for l in lines)
    body += "  IN(u32, k); VASSUME(k <= CAP);\n"
    body += "  struct vlog l; l.e = got; l.n = 0; l.cap = CAP; l.stop_at = k; l.base = 0; i64 cend = -1;\n"
    body += "  CALL(cend = %s(buf, N, (unsigned char *)&l));\n" % fn
    body += '  VASSERT(!verif_aborted, "visiting an in-bounds image must not invoke the handler");\n'
    body += '  VASSERT(ne < CAP, "model capacity");\n'
    body += '  if (k == 0 || k > ne) { VASSERT(l.n == ne, "a complete visit reports every non-constant member and every entry exactly once");\n'
    if fn.startswith("visitcc_"):
        body += "  }\n"
    else:
        body += '    VASSERT(cend == (i64)r.end, "after a complete visit the cursor is at the end of the visited view"); }\n'
    body += '  else VASSERT(l.n == k, "visiting stops immediately after the callback that returned true");\n'
    body += "  for (unsigned i = 0; i < CAP; i++) if (i < l.n && i < ne) {\n"
    body += '    VASSERT(got[i].kind == exp[i].kind && got[i].tag == exp[i].tag, "members are reported in schema order with their own tag and entity kind");\n'
    body += '    VASSERT(got[i].off == exp[i].off && got[i].val == exp[i].val, "each callback receives the value / view the named accessor returns");\n'
    body += "  }\n"
    body += '  for (unsigned i = 0; i < N; i++) VASSERT(buf[i] == old[i], "visiting never writes");\n'
    return hgen.harness([u], body, pre=g.ref_c())


def build(ctx):
    hs = []
    G, D, E = 2, 1, ctx.q(1, 2)
    ctx.assumptions = ["recording visitor returning true at the k-th callback, k symbolic (k=0: never); geometry: numInGroup <= %d, data length <= %d, wire blockLength in [compiled, compiled+%d]; all bytes symbolic" % (G, D, E)]
    plan = [("vs_msg_le.xml", "17", "checked"), ("vs_msg2_le.xml", "17", "checked")] if ctx.quick else [(x, s, "checked") for s in ("11", "14", "17", "20") for x in ("vs_msg_le.xml", "vs_msg_be.xml")] + \
        [("vs_msg2_le.xml", "17", "checked"), ("vs_msg2_be.xml", "20", "checked"), ("vs_exotic.xml", "17", "checked"), ("vs_hdr_j.xml", "17", "checked")]
    plan = hgen.plan_env(plan)
    for (xml, std, mode) in plan:
        sch, inc = hgen.gen_headers(ctx, xml)
        for msg in sch.messages:
            if ctx.quick and msg.name in c02.QUICK_SKIP: continue
            if c02.skip2(ctx, sch, msg, ("pad", "arrmid", "lastcomp", "lastset", "cfirst", "empty", "cmx", "d3", "gng")): continue   # g3 (three groups, one nested): thorough tier
            g = msggen.MG(sch, msg, 1 if (ctx.quick and any(gr.groups for gr in msg.groups)) else G)   # nested message: G=1 in the quick tier (G=2 needs minutes)
            tags, lines, capn = msggen.visit_model(g)
            u = ctx.lower("c19_%s_%s" % (sch.ns, msg.name), g.cpp_prelude() + msggen.cpp_visit(g, tags), std=std, mode=mode, incs=[inc])
            N = g.max_size(E, D) + 1
            for fn, wm in (("visitc_%s" % g.M, False), ("visit_%s" % g.M, True), ("visitcc_%s" % g.M, False)):
                if ctx.quick and fn.startswith("visit_") : continue
                hs.append(P.Harness("%s_%s_%s_cxx%s" % (sch.ns, fn, mode, std), harness(u, g, lines, capn + 1, N, E, D, fn, wm), [u], unwind=G + 2,
                                    cap=ctx.q(600, 1200), backends=["minisat", "kissat"], extra_flags=["--no-standard-checks"],
                                    meta={"big_loops": ["ref_walk_%s.%d" % (msg.name, x) for x in range(16)]},
                                    desc="%s.%s: %s with a recording visitor: event log == model event sequence (schema order, own tags, accessor values/views, composite children), stop at every k, final cursor" % (sch.ns, msg.name, fn),
                                    bounds={"N": N, "G": g.G, "D": D, "E": E, "events": capn, "std": "c++" + std, "build": mode}))
    # ---- many entries: a group of zero-length entries with numInGroup over the whole uint8 range (no buffer needed): every entry is reported exactly once
    for (xml, std, mode) in plan[:1] if ctx.quick else plan:
        sch, inc = hgen.gen_headers(ctx, xml)
        if not [m_ for m_ in sch.messages if m_.name == "odd"]: continue
        msg = sch.message("odd")
        g = msggen.MG(sch, msg, 1)
        tags, lines, capn = msggen.visit_model(g)
        u = ctx.lower("c19_%s_%s" % (sch.ns, msg.name), g.cpp_prelude() + msggen.cpp_visit(g, tags), std=std, mode=mode, incs=[inc])
        body = """
  enum { N = 20, CAP = 6 };
  IN_BYTES(buf, N); unsigned char old[N]; verif_copy(old, buf, N);
  /* odd: header(8, blockLength 0) | ge: dim8 {blockLength, numInGroup} | gc: dim16 | da: len8 | db: len16 */
  buf[%(obl)d] = 0; buf[%(obl)d + 1] = 0;
  buf[8] = 0;                  /* ge blockLength 0: entries consume nothing */
  u64 cnt = buf[9];            /* ge numInGroup: ANY uint8 value */
  buf[10] = 0; buf[11] = 0; buf[12] = 0; buf[13] = 0; buf[14] = 0; buf[15] = 0; buf[16] = 0;
  verif_copy(old, buf, N);
  struct { u32 n; } l; l.n = 0; i64 cend = -1;
  u32 k = 0;   /* complete visit (stopping at every k is covered by the small-scope harnesses) */
  CALL(cend = visitcount_odd(buf, N, k, (unsigned char *)&l.n));
  VASSERT(!verif_aborted, "no handler");
  u64 total = 1 + cnt + 1 + 1 + 1;   /* group ge, its entries, group gc, data da, data db */
  if (k == 0 || k > total) { VASSERT(l.n == total, "every entry of a group is reported exactly once, for every numInGroup value of the type"); VASSERT(cend == 17, "cursor at the end of the message after a complete visit"); }
  else VASSERT(l.n == k, "visiting stops right after callback k");
  for (unsigned i = 0; i < N; i++) VASSERT(buf[i] == old[i], "visiting never writes");
""" % {"obl": g.hdr["blockLength"][0]}
        if not sch.be:
            hs.append(P.Harness("%s_visit_many_entries_cxx%s" % (sch.ns, std), hgen.harness([u], body), [u], unwind=260, cap=ctx.q(600, 1200), extra_flags=["--no-standard-checks"], backends=["kissat", "minisat", "z3"],
                                desc="%s.odd: visit_children over a group with ANY uint8 numInGroup (0..255) of zero-length entries: callback count, stop at k, final cursor" % sch.ns,
                                bounds={"numInGroup": "0..255 (whole type range)", "blockLength": 0, "std": "c++" + std}))
    # ---- get_by_tag / set_by_tag behave exactly like the named accessors (same reference obligations as C02/C01)
    class BT(msggen.Level):
        pass
    for (xml, std, mode) in plan[:1] if ctx.quick else plan:
        sch, inc = hgen.gen_headers(ctx, xml)
        for msg in sch.messages:
            if msg.name in ("nest",) and ctx.quick: continue
            g = msggen.MG(sch, msg, G)
            ub = ctx.lower("c19t_%s_%s" % (sch.ns, msg.name), g.cpp_prelude() + g.cpp_getset_bytag(), std=std, mode=mode, incs=[inc])
            N = g.max_size(0, D) + 1
            dynamic = bool(msg.groups or msg.data)
            for lv in g.levels:
                keep = [lf for lf in lv.leaves if len(lf.chain) == 1 and lf.kind != "array"]
                if not keep: continue
                lv2 = msggen.Level(lv.path, lv.node, lv.depth); lv2.leaves = keep; lv2.comps = []
                for kind, arms, mk in (("get", c02.leaf_arms(g, lv2, sch), c02.harness), ("set", [a for a in c01.arms_for(g, lv2) if not a[0].startswith(("resize_", "dresize_", "dset_"))], c01.harness)):
                    if not arms: continue
                    groups = [[a] for a in arms] if dynamic else [arms[j:j + 8] for j in range(0, len(arms), 8)]
                    for k, chunk in enumerate(groups):
                        nm = chunk[0][0] if dynamic else str(k)
                        hs.append(P.Harness("%s_bytag_%s_%s_%s_%s_cxx%s" % (sch.ns, msg.name, lv.name, kind, nm, std), mk(ub, g, chunk, N, 0, D), [ub], unwind=G + 2,
                                            cap=ctx.q(600, 1200), backends=["minisat", "kissat"], extra_flags=["--no-standard-checks"],
                                            meta={"big_loops": ["ref_walk_%s.%d" % (msg.name, x) for x in range(16)]},
                                            desc="%s.%s level %s: %s_by_tag<field tag> behaves exactly like the named accessor (reference value / reference bytes + frame) for %s" % (sch.ns, msg.name, lv.name, kind, [a[0] for a in chunk]),
                                            bounds={"N": N, "G": G, "D": D, "std": "c++" + std}))
        # enum visit: value tag or unknown tag for EVERY underlying value
        cpp = g.cpp_prelude() + "struct erec { uint32_t id; template<class T, class Tag> void on_enum_value(T, Tag){ id = etag<Tag>::value; } };\n"
        cpp = cpp.replace("#define IDX", "template<class Tag> struct etag { static constexpr uint32_t value = 77777; };\ntemplate<> struct etag<sbepp::unknown_enum_value_tag> { static constexpr uint32_t value = 99999; };\n#define IDX")
        enums = [t for t in sch.types.values() if t.kind == "enum"]
        for t in enums:
            for k, (vn, vt) in enumerate(t.values):
                cpp += "template<> struct etag<%s::schema::types::%s::%s> { static constexpr uint32_t value = %d; };\n" % (sch.ns, t.name, vn, k + 1)
            cpp += "W uint32_t evisit_%s(uint64_t v){ erec r{0}; sbepp::visit(from_bits<%s::types::%s>(v), r); return r.id; }\n" % (t.name, sch.ns, t.name)
        ue = ctx.lower("c19e_%s" % sch.ns, cpp, std=std, mode=mode, incs=[inc])
        for t in enums:
            size = SZ[t.prim]; mask = (1 << (8 * size)) - 1
            body = "  IN(u64, v); v &= 0x%xULL; u32 id = 0, exp = 99999;\n" % mask
            for k, (vn, vt) in enumerate(t.values):
                val = (ord(vt) if t.prim == "char" else int(vt)) & mask
                body += "  if (v == 0x%xULL) exp = %d;\n" % (val, k + 1)
            body += "  CALL(id = evisit_%s(v));\n" % t.name
            body += '  VASSERT(id == exp, "visiting an enum yields the tag of the matching validValue, or unknown_enum_value_tag for every other underlying value");\n'
            hs.append(P.Harness("%s_enumvisit_%s_cxx%s" % (sch.ns, t.name, std), hgen.harness([ue], body), [ue], unwind=3, cap=ctx.q(60, 300),
                                desc="enum %s (%s): sbepp::visit yields value tag / unknown tag for all underlying values" % (t.name, t.prim), bounds={"value": "all %d-bit values" % (8 * size), "std": "c++" + std}))
    # "visiting a set yields every choice with its bit": the generated set visitors (visit / on_set_choice and the older visit_set) of every encoding width, all underlying values
    import c15
    schs, incs = hgen.gen_headers(ctx, "vs_sets.xml")
    for std in hgen.stds(ctx):
        ug = ctx.lower("c15g", c15.gen_cpp(schs), std=std, mode="unchecked", incs=[incs])
        for t in schs.types.values():
            if t.kind != "set": continue
            hs.append(P.Harness("setvisit_%s_cxx%s" % (t.name, std), c15.gen_harness(ug, t), [ug], unwind=2,
                                desc="sbeppc-generated set %s (%s, choices %s): visit / visit_set report every choice once, in schema order, with exactly its bit (also named/by-tag access)" % (t.name, t.prim, t.choices),
                                bounds={"choices": [c[1] for c in t.choices], "value": "all values", "std": "c++" + std}))
    return hs
