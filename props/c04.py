"""C04 -- cursor access is equivalent to random access, tracks position, and reports misuse (one-step protocol check)."""
import hgen, msggen, c02
from hgen import P, M
from msggen import SZ, pn, idx


def arms_for(g, lv, checked):
    arms = []
    guard = g.level_guard(lv); be = g.be
    for m in g.cursor_members(lv):
        code = "    VASSUME(%s); IN(u32, kind); VASSUME(kind <= 4); IN(u64, coff); VASSUME(coff <= N); i64 o[2] = {-9, -9};\n" % guard
        code += "    u64 before = %s, off = %s, after = %s, after_skip = %s;\n" % (m["before"], m["off"], m["after"], m["after_skip"])
        anypos = "(kind == 1 || kind == 3 || %d)" % (1 if m["first_dyn"] else 0)
        if not checked:
            code += "    VASSUME(%s || coff == before);   /* unchecked build: only legal calls are defined */\n" % anypos
        code += "    CALL(cur_%s_%s_%s(buf, N, i0, i1, kind, (i64)coff, o));\n" % (g.M, lv.name, m["name"])
        code += "    if (%s || coff == before) {\n" % anypos
        code += '      VASSERT(!verif_aborted, "a legal cursor call must not invoke the handler");\n'
        if m["kind"] == "scalar":
            code += '      if (kind != 4) VASSERT((u64)o[0] == ref_rd(buf + off, %d, %d), "cursor getter yields the same value as the random-access getter");\n' % (m["size"], be)
        else:
            code += '      if (kind != 4) VASSERT((u64)o[0] == off, "cursor accessor yields a view of the same bytes as the random-access accessor");\n'
        code += '      u64 expc = (kind == 0 || kind == 1) ? after : (kind == 4 ? after_skip : before);\n'
        code += '      VASSERT((u64)o[1] == expc, "cursor is left exactly at the documented position (plain/init: end of member or block end for the last field; dont_move kinds: position before the member; skip: end of the whole member)");\n'
        code += "    } else {\n"
        code += '      VASSERT(verif_aborted, "plain/dont_move/skip call with the cursor not at the position the member requires is reported through the assertion handler");\n'
        code += "    }\n"
        arms.append((m["name"], code))
    return arms


def range_arms(g, lv):
    """cursor_range / cursor_subrange over the groups that are direct members of level lv"""
    arms = []
    guard = g.level_guard(lv); d = lv.depth; G = g.G
    for gr in lv.node.groups:
        n = pn(lv.path + (gr.name,)); ix = idx(d)
        code = "    VASSUME(%s); i64 ad[%d], o[2] = {-9, -9}; for (unsigned i = 0; i < %d; i++) ad[i] = -9;\n" % (guard, G + 1, G + 1)
        code += "    CALL(crange_%s_%s(buf, N, i0, i1, ad, %d, o));\n" % (g.M, n, G + 1)
        code += '    VASSERT(!verif_aborted, "a legal traversal must not invoke the handler");\n'
        code += '    VASSERT((u64)o[0] == r.%s_n%s, "cursor_range produces exactly numInGroup entries");\n' % (n, ix)
        code += '    for (unsigned i = 0; i < %d; i++) if (i < r.%s_n%s) VASSERT(ad[i] == (i64)r.%s_ent%s[i], "cursor_range entry i is the entry random access gives");\n' % (G, n, ix, n, ix)
        code += '    VASSERT((u64)o[1] == r.%s_end%s, "after the range the cursor is at the end of the group");\n' % (n, ix)
        arms.append(("crange_" + n, code))
        code = "    VASSUME(%s); IN(u64, pos); IN(u64, cnt); IN(u32, use_cnt); VASSUME(pos < r.%s_n%s && use_cnt <= 1); VASSUME(cnt <= r.%s_n%s - pos);\n" % (guard, n, ix, n, ix)
        code += "    u64 pp = pos < %d ? pos : 0; u64 expn = use_cnt ? cnt : r.%s_n%s - pos;\n" % (G, n, ix)
        code += "    i64 ad[%d], o[2] = {-9, -9}; for (unsigned i = 0; i < %d; i++) ad[i] = -9;\n" % (G + 1, G + 1)
        code += "    CALL(csub_%s_%s(buf, N, i0, i1, pos, cnt, use_cnt, (i64)r.%s_ent%s[pp], ad, %d, o));\n" % (g.M, n, n, ix, G + 1)
        code += '    VASSERT(!verif_aborted, "a legal sub-range traversal must not invoke the handler");\n'
        code += '    VASSERT((u64)o[0] == expn, "cursor_subrange(pos[,count]) produces the requested number of entries");\n'
        code += '    for (unsigned i = 0; i < %d; i++) if (i < expn && pos + i < %d) VASSERT(ad[i] == (i64)r.%s_ent%s[pos + i], "sub-range entry i is entry pos+i");\n' % (G, G, n, ix)
        code += '    if (expn > 0 && pos + expn - 1 < %d) VASSERT((u64)o[1] == r.%s_eend%s[pos + expn - 1], "the cursor ends at the end of the visited sub-range"); else if (expn == 0) VASSERT((u64)o[1] == r.%s_ent%s[pp], "an empty sub-range leaves the cursor where it was");\n' % (G, n, ix, n, ix)
        arms.append(("csub_" + n, code))
    return arms


def setter_arms(g, lv, checked):
    arms = []
    guard = g.level_guard(lv); be = g.be
    for m in g.cursor_members(lv):
        if m["kind"] != "scalar": continue
        code = "    VASSUME(%s); IN(u32, kind); VASSUME(kind <= 3); IN(u64, coff); VASSUME(coff <= N); IN(u64, v); i64 o[1] = {-9};\n" % guard
        code += "    u64 before = %s, off = %s, after = %s;\n" % (m["before"], m["off"], m["after"])
        anypos = "(kind == 1 || kind == 3)"
        if not checked:
            code += "    VASSUME(%s || coff == before);\n" % anypos
        code += "    CALL(curset_%s_%s_%s(buf, N, i0, i1, kind, (i64)coff, v, o));\n" % (g.M, lv.name, m["name"])
        code += "    if (%s || coff == before) {\n" % anypos
        code += '      VASSERT(!verif_aborted, "a legal cursor setter call must not invoke the handler");\n'
        code += '      for (unsigned i = 0; i < N; i++) { if (i >= off && i < off + %d) VASSERT(buf[i] == ref_byte(v, %d, %d, i - (unsigned)off), "cursor setter writes the same bytes as the random-access setter"); else VASSERT(buf[i] == old[i], "cursor setter writes nothing else"); }\n' % (m["size"], m["size"], be)
        code += '      VASSERT((u64)o[0] == ((kind == 0 || kind == 1) ? after : before), "cursor is left at the documented position after a cursor setter");\n'
        code += "    } else {\n"
        code += '      VASSERT(verif_aborted, "a cursor setter with the cursor at a wrong position is reported through the assertion handler");\n'
        code += '      for (unsigned i = 0; i < N; i++) VASSERT(buf[i] == old[i], "a reported misuse writes nothing");\n'
        code += "    }\n"
        arms.append(("set_" + m["name"], code))
    return arms


def harness_nw(u, g, arms, N, E, D):
    body = g.prologue(N, E, D) + "  SELECT(which);\n  switch (which) {\n"
    for k, (label, code) in enumerate(arms):
        body += "  case %d: { /* %s */\n%s    break; }\n" % (k, label, code)
    body += "  default: VASSUME(0);\n  }\n"
    return hgen.harness([u], body, pre=g.ref_c())


def harness(u, g, arms, N, E, D):
    body = g.prologue(N, E, D) + "  SELECT(which);\n  switch (which) {\n"
    for k, (label, code) in enumerate(arms):
        body += "  case %d: { /* %s */\n%s    break; }\n" % (k, label, code)
    body += "  default: VASSUME(0);\n  }\n"
    body += '  for (unsigned i = 0; i < N; i++) VASSERT(buf[i] == old[i], "cursor getters never write");\n'
    return hgen.harness([u], body, pre=g.ref_c())


def build(ctx):
    hs = []
    G, D, E = 2, ctx.q(1, 2), ctx.q(1, 3)
    ctx.assumptions = ["one cursor call from an arbitrary cursor position inside the buffer object (0..N) on an arbitrary image: legal pre-states must agree with random access and end at the documented position, every other pre-state must be reported (checked build)",
                       "geometry: numInGroup <= %d, data length <= %d, wire blockLength in [compiled, compiled+%d] per level" % (G, D, E),
                       "chain obligation (position after member k == required position before member k+1) is part of the reference model: after/before expressions are generated from the same walker"]
    plan = [("vs_msg_le.xml", "17", "checked"), ("vs_msg_be.xml", "20", "checked"), ("vs_msg_le.xml", "17", "unchecked"), ("vs_msg2_le.xml", "17", "checked"), ("vs_exotic.xml", "17", "checked")] if ctx.quick else \
        [("vs_msg_le.xml", "17", "checked"), ("vs_msg_be.xml", "17", "checked"), ("vs_msg_le.xml", "20", "checked"), ("vs_msg_be.xml", "20", "checked"),
         ("vs_msg_le.xml", "11", "checked"), ("vs_msg_be.xml", "14", "checked"), ("vs_msg_le.xml", "17", "unchecked"), ("vs_msg_be.xml", "20", "unchecked"),
         ("vs_msg2_le.xml", "17", "checked"), ("vs_msg2_be.xml", "20", "checked"), ("vs_msg2_le.xml", "11", "unchecked")]
    plan = hgen.plan_env(plan)
    for (xml, std, mode) in plan:
        sch, inc = hgen.gen_headers(ctx, xml)
        for msg in sch.messages:
            if ctx.quick and msg.name in c02.QUICK_SKIP: continue
            g = msggen.MG(sch, msg, G)
            u = ctx.lower("c04_%s_%s" % (sch.ns, msg.name), g.cpp_prelude() + g.cpp_cursor() + g.cpp_cursor_ranges() + g.cpp_cursor_setters(), std=std, mode=mode, incs=[inc])
            N = g.max_size(E, D) + 1
            dynamic = bool(msg.groups or msg.data)
            for lv in g.levels:
                for kind, arms, mk in (("get", arms_for(g, lv, mode == "checked"), harness), ("range", range_arms(g, lv), harness), ("set", setter_arms(g, lv, mode == "checked"), harness_nw)):
                  if not arms: continue
                  groups = [[a] for a in arms] if dynamic else [arms[j:j + 5] for j in range(0, len(arms), 5)]
                  for k, chunk in enumerate(groups):
                    nm = kind + "_" + (chunk[0][0] if dynamic else str(k))
                    hs.append(P.Harness("%s_%s_%s_%s_%s_cxx%s" % (sch.ns, msg.name, lv.name, nm, mode, std), mk(u, g, chunk, N, E, D), [u], unwind=G + 2,
                                        cap=ctx.q(600, 1200), backends=["minisat", "kissat"], extra_flags=["--no-standard-checks"],
                                        meta={"big_loops": ["ref_walk_%s.%d" % (msg.name, x) for x in range(16)]},
                                        desc="message %s.%s level %s: cursor protocol of %s for kinds {plain, init, dont_move, init_dont_move, skip} from every cursor position" % (sch.ns, msg.name, lv.name, [a[0] for a in chunk]),
                                        bounds={"N": N, "G": G, "D": D, "E": E, "std": "c++" + std, "build": mode, "byte_order": "BE" if sch.be else "LE"}))
    return hs
