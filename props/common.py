"""Common driver: runs a property's harnesses, classifies outcomes, replays counterexamples,
applies the known-findings file and writes the evidence file."""
import json, os, re, shutil, sys, time

HERE = os.path.dirname(os.path.abspath(__file__))
VERIF = os.path.dirname(HERE)
sys.path.insert(0, os.path.join(VERIF, "engine"))
import pipeline as P  # noqa: E402

KNOWN = os.path.join(VERIF, "known_findings.json")


def known_findings():
    try:
        return json.load(open(KNOWN))
    except Exception:
        return {"open": [], "fixed": []}


class PreconditionViolation(Exception):
    """a generated header of an accepted verification schema does not compile: decided by the compiler while lowering (not a solver verdict)"""
    def __init__(self, what, d):
        Exception.__init__(self, what); self.what, self.dir = what, d


def generated_header_error(u, incs):
    """first compiler error located inside sbeppc's output directory or inside the library header itself (None if the first error is located in the wrapper TU):
    instantiating a documented accessor of an accepted schema must compile; an ill-formed wrapper (e.g. a renamed detail:: name) is reported at the wrapper's own line and stays an engine error"""
    incs = list(incs) + [os.path.join(P.REPO, "sbepp", "src")]
    for ln in (u.get("stderr") or "").split("\n"):
        m = re.match(r"(\S+?):(\d+):(\d+): (fatal )?error: (.*)", ln)
        if not m: continue
        f = os.path.realpath(m.group(1))
        if any(f.startswith(os.path.realpath(i) + os.sep) for i in incs): return ln
        return None   # the first error decides: an error in the wrapper / library header is not attributed to the generator
    return None


class Ctx:
    def __init__(self, pid, tier, seed):
        self.pid, self.tier, self.seed = pid, tier, seed
        self.quick = tier == "quick"
        self.slot = P.Slot()
        self.runner = P.Runner(self.slot, pid, tier)
        kf = known_findings()
        self.open = {f["id"]: f for f in kf.get("open", []) if f.get("property") == pid}
        self.notes = []          # free-text notes for evidence
        self.units = []          # lowered units (for evidence)
        self.observations = []   # non-solver observations (pipeline preconditions)
        self.pre_violations = []  # (what, dir) pipeline precondition violations
        self.t0 = time.time()

    def q(self, quick, thorough):
        return quick if self.quick else thorough

    def lower(self, name, cpp, **kw):
        u = self.slot.lower(name, cpp, **kw)
        if "error" in u:
            gh = generated_header_error(u, kw.get("incs") or ())
            if gh:
                self.lower_failure = name
                d = os.path.join(VERIF, "replays", self.pid, "generated_header_does_not_compile_" + re.sub(r"\W", "_", name)); os.makedirs(d, exist_ok=True)
                shutil.copy(u["cpp"], os.path.join(d, "w.cpp"))
                open(os.path.join(d, "compiler_output.txt"), "w").write(u.get("stderr", ""))
                open(os.path.join(d, "replay.sh"), "w").write("#!/bin/sh\n# re-runs the front end on the wrapper that includes the generated header; falls back to the recorded output\n"
                                                              "clang++-14 %s -fsyntax-only %s/w.cpp 2>&1 | head -40; cat %s/compiler_output.txt | head -40; exit 1\n" % (" ".join(u.get("flags", [])), d, d))
                raise PreconditionViolation("a generated header / the library header does not compile when a documented accessor of an accepted verification schema is instantiated (%s): %s" % (name, gh[:300]), d)
            raise P.EngineError("unit %s does not lower: %s\n%s" % (name, u["error"], u.get("stderr", "")))
        self.units.append(u)
        return u

    def try_lower(self, name, cpp, **kw):
        u = self.slot.lower(name, cpp, **kw)
        if "error" not in u: self.units.append(u)
        return u

    def schema(self, name):
        return os.path.join(VERIF, "schemas", name)


def replay_dir(pid, h):
    d = os.path.join(VERIF, "replays", pid, h)
    if os.path.isdir(d): shutil.rmtree(d, ignore_errors=True)
    os.makedirs(d, exist_ok=True)
    return d


def classify(ctx, harnesses, results):
    """returns (violations, known, errors, validated) and prints the interface lines"""
    pid = ctx.pid
    byname = {h.name: h for h in harnesses}
    violations, known, errors, validated = [], [], [], 0
    for r in results:
        h = byname[r["harness"]]
        v = r["verdict"]
        if h.expect == "proved":
            if v == "PROVED":
                continue
            own = [f for f in (r.get("failed") or []) if f["id"].startswith(("harness.", "verif_", "ref_")) and ".assertion." not in f["id"]]
            unw = [f for f in (r.get("failed") or []) if ".unwind." in f["id"]]
            if v == "REFUTED" and unw and not h.meta.get("unwind_is_property"):
                # the loop bound was already raised three times (pipeline.Runner.decide): either the bound is still too small (inconclusive) or the code under test
                # really loops beyond anything the bounded geometry allows.  Only the real code decides: the solver's inputs are replayed natively and a failing /
                # crashing / non-terminating replay is a violation; anything else stays inconclusive.
                rp = confirm(ctx, h, r) if r.get("inputs") else {"confirmed": False, "note": "no inputs"}
                r["replay"] = {k: rp.get(k) for k in ("rc", "out", "dir", "confirmed", "note")}
                if rp["confirmed"]:
                    violations.append(r)
                    print("VIOLATION property=%s replay=%s" % (pid, rp["dir"]))
                    print("  harness=%s failed=%s (unwinding assertion; confirmed by the native replay)" % (h.name, "; ".join(f["text"] for f in (r.get("failed") or [])[:4])))
                    continue
                errors.append(r)
                print("ERROR property=%s harness=%s: unwinding assertion fails (%s): the stated loop bound %d is too small for this code -- inconclusive, not a verdict" % (pid, h.name, unw[0]["id"], h.unwind))
            elif v == "REFUTED" and own:
                errors.append(r)
                print("ERROR property=%s harness=%s: cbmc check fails inside the harness' own code (%s) -- harness bug, not a verdict" % (pid, h.name, own[0]["text"]))
            elif v == "REFUTED":
                rp = confirm(ctx, h, r)
                r["replay"] = {k: rp.get(k) for k in ("rc", "out", "dir", "confirmed", "note")}
                if rp["confirmed"]:
                    violations.append(r)
                    print("VIOLATION property=%s replay=%s" % (pid, rp["dir"]))
                    print("  harness=%s failed=%s" % (h.name, "; ".join(f["text"] for f in (r.get("failed") or [])[:4])))
                else:
                    errors.append(r)
                    print("ERROR property=%s harness=%s: counterexample does not reproduce on the real code (%s) -- engine discrepancy, not a verdict" % (pid, h.name, rp.get("note")))
            else:
                errors.append(r)
                print("ERROR property=%s harness=%s: %s %s" % (pid, h.name, v, (r.get("detail") or "")[:400].replace("\n", " ")))
        else:  # known-finding twin: expected to be refuted, i.e. the finding is still present
            fid = h.meta.get("finding")
            f = ctx.open.get(fid, {})
            if v == "REFUTED":
                rp = confirm(ctx, h, r, keep=False)
                r["replay"] = {k: rp.get(k) for k in ("rc", "confirmed", "note")}
                known.append(r)
                print("KNOWN-FINDING: property=%s %s [%s]%s" % (pid, f.get("what", h.desc), fid, "" if rp["confirmed"] else " (solver verdict only: the native replay cannot observe it -- %s)" % rp.get("note")))
            elif v == "PROVED":
                ctx.notes.append("known finding %s no longer reproduces (twin proved); entry can be retired" % fid)
            else:
                errors.append(r)
                print("ERROR property=%s harness=%s (known-finding twin): %s" % (pid, h.name, v))
    return violations, known, errors


def confirm(ctx, h, r, keep=True):
    """replay the solver's inputs against the real code (g++ and clang++, ASan+UBSan)"""
    inputs = r.get("inputs") or {}
    out = {"confirmed": False, "dir": None}
    if h.meta.get("no_native"):
        # the harness' environment is a set of stubs (stated in the evidence): there is no real counterpart to replay against;
        # the solver's trace over the real function's IR is the witness
        d = replay_dir(ctx.pid, h.name) if keep else h.dir
        if keep:
            shutil.copy(os.path.join(h.dir, "harness.c"), d)
            for u in h.units: shutil.copy(u["cpp"], os.path.join(d, "wrapper-%s.cpp" % os.path.basename(u["dir"])))
            json.dump({"failed": r.get("failed"), "inputs": inputs, "desc": h.desc, "bounds": h.bounds, "note": "stub environment: solver trace only"}, open(os.path.join(d, "counterexample.json"), "w"), indent=1)
            open(os.path.join(d, "replay.sh"), "w").write("#!/bin/sh\ncat %s/counterexample.json; exit 1\n" % d)
        out.update({"confirmed": True, "dir": d, "note": "stub environment: solver trace (no native counterpart)"})
        return out
    if not inputs:
        out["note"] = "no inputs extracted from trace"; return out
    d = replay_dir(ctx.pid, h.name) if keep else h.dir
    if keep:
        shutil.copy(os.path.join(h.dir, "harness.c"), d)
        for u in h.units:
            shutil.copy(u["cpp"], os.path.join(d, "wrapper-%s.cpp" % os.path.basename(u["dir"])))
        json.dump({"failed": r.get("failed"), "inputs": inputs, "desc": h.desc, "bounds": h.bounds}, open(os.path.join(d, "counterexample.json"), "w"), indent=1)
    out["dir"] = d
    notes = []
    for comp in ("g++", "clang++-14"):
        try:
            rp = P.native_replay(ctx.slot, h, inputs, h.units, compiler=comp, sanitize=True, outdir=d)
        except P.EngineError as e:
            notes.append("%s: %s" % (comp, str(e)[:300])); continue
        out["rc"], out["out"] = rp["rc"], rp["out"]
        if rp["rc"] == 77:
            notes.append("%s: assumption violated natively" % comp); continue
        if rp["rc"] != 0:
            out["confirmed"] = True
            out["note"] = "%s rc=%d" % (comp, rp["rc"])
            return out
        notes.append("%s: rc=0" % comp)
    # standard-level UB no sanitizer observes (e.g. pointer formed out of bounds) is not reported as a violation
    out["note"] = "; ".join(notes)
    return out


def validate_witness(ctx, h):
    """translator validation: replay the witness twin's trace on the real code; every real assertion must pass"""
    tr = P.run_cbmc(h, witness=True, trace=True, backend=h.backends[0], cap=h.cap or 60)
    vals, failed = P.extract_inputs(tr.get("raw", ""))
    if not vals: return None
    rp = P.native_replay(ctx.slot, h, vals, h.units, compiler="g++", sanitize=True, witness=True)
    return rp


def write_evidence(ctx, level, harnesses, results, violations, known, errors, extra=None, explanation=None):
    pid = ctx.pid
    proved = [r for r in results if r["verdict"] == "PROVED"]
    samples = []
    for r in results[:6]:
        samples.append({"harness": r["harness"], "asserts": r["desc"], "bounds": r["bounds"], "unwind": r["unwind"], "verdict": r["verdict"],
                        "backend": r.get("backend"), "seconds": r["s"], "cbmc_properties_checked": r.get("checked_properties")})
    funcs = sorted({f for u in ctx.units for f in u.get("inlined", [])})
    cov = {
        "evaluations": ctx.runner.queries,
        "distinct_nontrivial": len([r for r in results if r.get("witness") == "reached" or (r["expect"] == "refuted" and r["verdict"] == "REFUTED")]),
        "rule": "one solver query per harness x instantiation (plus its witness twin); a harness counts as non-trivial only if its witness twin "
                "(final assert(0)) is refuted, i.e. the end of the harness is reachable under the stated assumptions",
        "samples": samples,
        "queries_discharged": len(proved),
        "harnesses": len(results),
        "solver_time_s": round(ctx.runner.solver_s, 1),
        "peak_rss_kb": ctx.runner.peak_rss,
        "cbmc_properties_checked": sum(r.get("checked_properties", 0) for r in results),
        "functions_encoded": funcs[:400],
        "functions_encoded_count": len(funcs),
        "ir_instructions": sum(u["info"]["ir_instructions"] for u in ctx.units),
        "units": [{"cpp": os.path.basename(u["dir"]), "std": u["std"], "mode": u["mode"], "ir_instructions": u["info"]["ir_instructions"]} for u in ctx.units][:60],
        "backend_wins": {},
        "per_harness": [{"h": r["harness"], "v": r["verdict"], "s": r["s"], "b": r.get("backend"), "unwind": r["unwind"]} for r in results],
        "known_findings": [r["meta"].get("finding") for r in known],
        "observations_not_solver_verdicts": ctx.observations,
        "notes": ctx.notes,
        "hooks": ["H1 SBEPP_VERIF_TOUCH (sbepp.hpp get_primitive/set_primitive)"],
        "encoding_regenerated_from": P.REPO + " working tree, content hash " + ctx.slot.hash[:16],
    }
    for r in results:
        b = r.get("backend") or "?"
        cov["backend_wins"][b] = cov["backend_wins"].get(b, 0) + 1
    if level == "model_checking":
        cov["states"] = max(1, sum(r.get("checked_properties", 0) for r in results))
        cov["transitions"] = max(1, len(results))
        cov["traces_validated_against_impl"] = getattr(ctx, "witness_replays_ok", 0)
        cov["states_note"] = "symbolic: 'states' counts cbmc property instances decided, not enumerated states"
    if level == "translation_validation":
        cov["programs"] = max(1, len(ctx.units))
        cov["disagreements_checked"] = sum(r.get("checked_properties", 0) for r in results)
    if level == "other" or explanation:
        cov["explanation"] = explanation or ""
    cov["witness_replays_on_real_code_ok"] = getattr(ctx, "witness_replays_ok", 0)
    cov["second_solver_cross_checks_agreeing"] = getattr(ctx, "cross_checked", 0)
    if extra: cov.update(extra)
    ev = {
        "property_id": pid, "tier": ctx.tier, "seed": ctx.seed, "level": level, "coverage": cov,
        "assumptions": getattr(ctx, "assumptions", []) + [
            "clang-14 -O1 lowering with UB made explicit by -fsanitize-trap; gcc/MSVC code generation and constant evaluation are outside the claim",
            "own IR->C translator (validated by replaying each harness' witness trace against the real g++ build)",
            "cbmc 6.11 with --unwinding-assertions, --no-malloc-may-fail (allocation failure is not part of any property)",
            "schemas are enumerated (fixed families), not symbolic",
        ],
        "wall_s": round(time.time() - ctx.t0, 1),
        "violations": len(violations),
    }
    os.makedirs(os.path.join(VERIF, "evidence"), exist_ok=True)
    json.dump(ev, open(os.path.join(VERIF, "evidence", pid + ".json"), "w"), indent=1)


def run_property(mod, pid, tier, seed, level, explanation=None):
    ctx = Ctx(pid, tier, seed)
    try:
        harnesses = mod.build(ctx)
        if os.environ.get("VERIF_ONLY"):   # development aid (never set by the registered commands): run only the harnesses whose name matches
            import re as _re
            harnesses = [h for h in harnesses if _re.search(os.environ["VERIF_ONLY"], h.name)]
        for what, d in ctx.pre_violations:
            print("VIOLATION property=%s replay=%s" % (pid, d)); print("  " + what)
        results = ctx.runner.run(harnesses)
        violations, known, errors = classify(ctx, harnesses, results)
        # translator validation on the real code
        ctx.witness_replays_ok = 0
        limit = ctx.q(4, 10 ** 6)
        byname = {h.name: h for h in harnesses}
        cand = [r for r in results if r["verdict"] == "PROVED" and r.get("witness") == "reached" and not byname[r["harness"]].meta.get("no_native")][:limit]
        import concurrent.futures as cf
        def vw(r):
            try:
                return r, validate_witness(ctx, byname[r["harness"]])
            except P.EngineError as e:
                return r, {"rc": -1, "out": str(e)}
        with cf.ThreadPoolExecutor(max_workers=P.NPROC) as ex:
            for r, rp in ex.map(vw, cand):
                if rp is None: continue
                if rp["rc"] == 0: ctx.witness_replays_ok += 1
                else:
                    errors.append(r)
                    print("ERROR property=%s harness=%s: witness trace does not pass on the real code (rc=%s): translator/model discrepancy\n%s" % (pid, r["harness"], rp["rc"], rp["out"][-600:]))
        # second-solver cross-check: a sample of proved harnesses is re-decided by a different back end; verdicts must agree
        ctx.cross_checked = 0
        sample = [r for r in results if r["verdict"] == "PROVED" and r.get("s", 0) < 30][: ctx.q(2, 8)]
        def xc(r):
            h = byname[r["harness"]]
            other = "cadical" if (r.get("backend") or "minisat") != "cadical" else "minisat"
            return r, other, P.run_cbmc(h, witness=h.witness, backend=other, cap=max(60, int(r["s"] * 6) + 30))
        with cf.ThreadPoolExecutor(max_workers=P.NPROC) as ex:
            for r, other, rr in ex.map(xc, sample):
                fw = [f for f in (rr.get("failed") or []) if "witness: end of harness reachable" not in f["text"]]
                ok = (rr["verdict"] == "REFUTED" and not fw) if byname[r["harness"]].witness else rr["verdict"] == "PROVED"
                if rr["verdict"] in ("INCONCLUSIVE",): continue
                if ok: ctx.cross_checked += 1
                else:
                    errors.append(r)
                    print("ERROR property=%s harness=%s: back ends disagree (%s proved, %s says %s %s)" % (pid, r["harness"], r.get("backend"), other, rr["verdict"], fw[:2]))
        write_evidence(ctx, level, harnesses, results, violations + [None] * len(ctx.pre_violations), known, errors, getattr(ctx, "extra", None), explanation)
        n = len(results)
        print("%s tier=%s: %d harnesses, %d proved, %d violations, %d known findings, %d errors, solver %.1fs, wall %.1fs" % (
            pid, tier, n, len([r for r in results if r["verdict"] == "PROVED"]), len(violations) + len(ctx.pre_violations), len(known), len(errors), ctx.runner.solver_s, time.time() - ctx.t0))
        if violations or ctx.pre_violations: return 1
        if errors: return 2
        return 0
    except PreconditionViolation as e:
        print("VIOLATION property=%s replay=%s" % (pid, e.dir)); print("  " + e.what)
        ctx.pre_violations.append((e.what, e.dir))
        ctx.observations.append({"what": e.what, "decided_by": "clang front end while lowering a generated header (pipeline precondition, not a solver verdict)"})
        try:
            write_evidence(ctx, level, [], [], [None], [], [], getattr(ctx, "extra", None), explanation)
        except Exception:
            pass
        return 1
    except P.EngineError as e:
        print("ERROR property=%s engine failure: %s" % (pid, e))
        return 2
