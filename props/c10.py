"""C10 -- checked builds never touch memory outside the view silently (handler-or-in-bounds on malloc(n), every truncation point)."""
import hgen, msggen, c17, c05
from hgen import P, M
from msggen import SZ, pn, idx


def cpp_extra(g):
    o = []
    for lv in g.levels:
        e = g.nav(lv.path)
        for lf in lv.leaves:
            if lf.kind == "array" and not lf.const:
                o.append("W uint64_t %s(char* p, size_t n, IDX, uint32_t k){ %s return to_bits(%s.raw()[k]); }" % (g.wname("rawget", lv, lf), g.view(), lf.expr(e)))
                o.append("W void %s(char* p, size_t n, IDX, uint64_t v){ %s auto a = %s.raw(); a.fill(from_bits<typename decltype(a)::value_type>(v)); }" % (g.wname("rawfill", lv, lf), g.view(), lf.expr(e)))
                if lf.prim == "char":
                    o.append("W uint64_t %s(char* p, size_t n, IDX){ %s return %s.strlen() + 100 * %s.strlen_r(); }" % (g.wname("arrstrlen", lv, lf), g.view(), lf.expr(e), lf.expr(e)))
    return "\n".join(o) + "\n"


def arms(g):
    """(label, code, in_bounds_condition or None): each arm performs exactly one library call with valid arguments"""
    out = []
    for lv in g.levels:
        guard = g.level_guard(lv); base = g.level_base(lv)
        for lf in lv.leaves:
            if lf.const: continue
            end = "(%s + %d)" % (base, lf.offset + lf.size)
            if lf.kind == "array":
                n_ = lf.typ.length
                out.append(("getel_" + lv.name + "_" + lf.name, "    VASSUME(%s); IN(u32, k); VASSUME(k < %d); CALL(%s(buf, n, i0, i1, k));\n" % (guard, n_, g.wname("getel", lv, lf)), end))
                out.append(("setel_" + lv.name + "_" + lf.name, "    VASSUME(%s); IN(u32, k); VASSUME(k < %d); IN(u64, v); CALL(%s(buf, n, i0, i1, k, v));\n" % (guard, n_, g.wname("setel", lv, lf)), end))
                out.append(("rawget_" + lv.name + "_" + lf.name, "    VASSUME(%s); IN(u32, k); VASSUME(k < %d); CALL(%s(buf, n, i0, i1, k));\n" % (guard, n_, g.wname("rawget", lv, lf)), end))
                out.append(("rawfill_" + lv.name + "_" + lf.name, "    VASSUME(%s); IN(u64, v); CALL(%s(buf, n, i0, i1, v));\n" % (guard, g.wname("rawfill", lv, lf)), end))
                if lf.prim == "char": out.append(("strlen_" + lv.name + "_" + lf.name, "    VASSUME(%s); CALL(%s(buf, n, i0, i1));\n" % (guard, g.wname("arrstrlen", lv, lf)), end))
            else:
                out.append(("get_" + lv.name + "_" + lf.name, "    VASSUME(%s); CALL(%s(buf, n, i0, i1));\n" % (guard, g.wname("get", lv, lf)), end))
                out.append(("set_" + lv.name + "_" + lf.name, "    VASSUME(%s); IN(u64, v); CALL(%s(buf, n, i0, i1, v));\n" % (guard, g.wname("set", lv, lf)), end))
        for m in g.cursor_members(lv):
            code = "    VASSUME(%s); IN(u32, kind); VASSUME(kind <= 4); i64 o[2]; u64 before = %s;\n" % (guard, m["before"])
            code += "    CALL(cur_%s_%s_%s(buf, n, i0, i1, kind, (i64)before, o));\n" % (g.M, lv.name, m["name"])
            out.append(("cursor_" + lv.name + "_" + m["name"], code, None))
        d = lv.depth
        for gr in lv.node.groups:
            nn = pn(lv.path + (gr.name,))
            out.append(("ginfo_" + nn, "    VASSUME(%s); i64 o[6]; CALL(ginfo_%s_%s(buf, n, i0, i1, o));\n" % (guard, g.M, nn), None))
            out.append(("gresize_" + nn, "    VASSUME(%s); IN(u64, v); VASSUME(v <= 2); CALL(gresize_%s_%s(buf, n, i0, i1, v));\n" % (guard, g.M, nn), None))
            out.append(("gbytes_" + nn, "    VASSUME(%s); CALL(gbytes_%s_%s(buf, n, i0, i1));\n" % (guard, g.M, nn), None))
            out.append(("fillgrp_" + nn, "    VASSUME(%s); IN(u64, v); VASSUME(v <= 2); CALL(fillgrp_%s_%s(buf, n, i0, i1, v));\n" % (guard, g.M, nn), None))
        for dt in lv.node.data:
            nn = pn(lv.path + (dt.name,))
            out.append(("dinfo_" + nn, "    VASSUME(%s); i64 o[4]; IN(u32, k); VASSUME(k < 4); CALL(dinfo_%s_%s(buf, n, i0, i1, k, o));\n" % (guard, g.M, nn), None))
            out.append(("dresize_" + nn, "    VASSUME(%s); IN(u64, v); VASSUME(v <= 3); CALL(dresize_%s_%s(buf, n, i0, i1, v));\n" % (guard, g.M, nn),
                        "NOFULL:(r.%s_off%s + %d + v)" % (nn, idx(d), dt.typ.size)))
            out.append(("dset_" + nn, "    VASSUME(%s); IN(u64, v); IN(u32, k); VASSUME(k < r.%s_len%s); CALL(dset_%s_%s(buf, n, i0, i1, k, v));\n" % (guard, nn, idx(d), g.M, nn), None))
    out.append(("msize", "    CALL(msize_%s(buf, n));\n" % g.M, None))
    out.append(("fillmsg", "    CALL(fillmsg_%s(buf, n));\n" % g.M, "%d" % g.HDR))
    out.append(("csize", "    CALL(csize_%s(buf, n));\n" % g.M, None))
    return out


def harness(u, g, arm, nmax, E, D):
    label, code, inb = arm
    body = "  IN_BYTES(img, NMAX); IN(u64, n); VASSUME(n <= NMAX);\n"
    body += "  unsigned char *buf = VMALLOC(n); for (unsigned i = 0; i < NMAX; i++) if (i < n) buf[i] = img[i];   /* exact-size allocation */\n"
    body += "  ref_shrink = 1000;   /* safety direction: every wire blockLength from 0 to compiled+E (a block shorter than the compiled one is what an older or hostile sender produces) */\n"
    body += "  struct geo_%s r; ref_walk_%s(img, NMAX, &r, %d, %d); VASSUME(r.ok);   /* header contents steer the offsets; counts/lengths bounded */\n" % (g.M, g.M, E, D)
    body += "  IN(u32, i0); IN(u32, i1); VASSUME(i0 < %d && i1 < %d);\n" % (g.G, g.G)
    body += code
    body += '  VASSERT(verif_aborted || !verif_oob, "if the assertion handler is not invoked, the operation accessed no byte at or beyond p+n");\n'
    if inb and inb.startswith("NOFULL:"):
        body += '  if (!r.shrunk && n >= r.end && n >= %s) VASSERT(!verif_aborted, "a call whose preconditions hold and whose accessed bytes lie inside the buffer never invokes the handler");\n' % inb[7:]
    elif inb:
        body += '  if (!r.shrunk && (n >= r.end || n >= %s)) VASSERT(!verif_aborted, "a call whose preconditions hold and whose accessed bytes lie inside the buffer never invokes the handler");\n' % inb
    else:
        body += '  if (!r.shrunk && n >= r.end) VASSERT(!verif_aborted, "with the whole image inside the buffer the handler is never invoked");\n'
    return hgen.harness([u], body, pre="#define NMAX %d\n" % nmax + g.ref_c())


def build(ctx):
    hs = []
    G, D, E = 2, 1, 1
    ctx.assumptions = ["checked build (SBEPP_ENABLE_ASSERTS_WITH_HANDLER); view = (malloc(n), n) with n symbolic from 0 to the full image size; image bytes symbolic; geometry of the image within bounds (numInGroup <= %d, data length <= %d, wire blockLength in [0, compiled+%d] for the safety direction, in [compiled, compiled+%d] for the no-spurious-handler direction)" % (G, D, E, E),
                       "every arm is ONE library call with otherwise valid arguments (index < size, cursor at the required position, element index < length)",
                       "VERIF_TRACK: all loads/stores/memcpy/H1 touches of the translated code are tested with __CPROVER_r_ok/w_ok against the exact allocation; verdict = handler invoked OR no access outside"]
    sch, inc = hgen.gen_headers(ctx, "vs_msg_le.xml")
    sel = ["comp", "grp", "tailc", "nsm"] if ctx.quick else ["prim", "misc", "comp", "grp", "tailc", "nsm", "odd", "nest"]
    stds = ["17"] if ctx.quick else ["11", "17", "20"]
    # second family (vs_msg2): padded (custom-offset) fields at root and in entries, array/composite/set in the middle or at the end of a block, entries ending in a nested group
    sch1, inc1 = sch, inc
    sch2, inc2 = hgen.gen_headers(ctx, "vs_msg2_le.xml")
    sel2 = ["pad", "arrmid", "lastcomp"] if ctx.quick else ["pad", "arrmid", "lastcomp", "lastset", "cfirst", "cmx", "empty", "gng", "g3", "d3"]
    for std in stds:
        for (sch, inc, mname) in [(sch1, inc1, m_) for m_ in sel] + [(sch2, inc2, m_) for m_ in sel2]:
            msg = sch.message(mname)
            g = msggen.MG(sch, msg, G)
            u = ctx.lower("c10_%s_%s" % (sch.ns, mname), g.cpp_prelude() + g.cpp_getset(True) + g.cpp_geom(True, True) + g.cpp_cursor() + cpp_extra(g) + c17.cpp(g) + c05.cpp_csize(g) + "\n",
                          std=std, mode="checked", incs=[inc])
            nmax = g.max_size(E, D)
            al = arms(g)
            if ctx.quick and mname == "nsm":
                # quick tier: members behind the nested group (g2, d2) and whole-message walks need minutes -> thorough tier
                al = [a for a in al if not a[0].startswith(("gbytes", "msize", "csize")) and not a[0].endswith(("_g2", "_d2", "_g2_z"))]
            for a in al:
                hs.append(P.Harness("%s_%s_%s_cxx%s" % (sch.ns, mname, a[0], std), harness(u, g, a, nmax, E, D), [u], unwind=G + 2, track=True,
                                    cap=ctx.q(600, 1200), backends=["minisat", "kissat"], meta={"big_loops": ["ref_walk_%s.%d" % (mname, x) for x in range(16)]},
                                    desc="%s.%s: %s on a view bound to malloc(n), every n in 0..%d: handler invoked or no out-of-bounds access; no spurious handler when the image fits" % (sch.ns, mname, a[0], nmax),
                                    bounds={"NMAX": nmax, "G": G, "D": D, "E": E, "std": "c++" + std}))
    sch, inc = sch1, inc1
    # hostile group header: blockLength and numInGroup of a flat group are ANY uint16 values, the view is short, the entry index is any valid index
    msgg = sch.message("grp")
    gg = msggen.MG(sch, msgg, 2)
    ug = ctx.lower("c10_%s_%s" % (sch.ns, "grp"), gg.cpp_prelude() + gg.cpp_getset(True) + gg.cpp_geom(True, True) + gg.cpp_cursor() + cpp_extra(gg) + c17.cpp(gg) + c05.cpp_csize(gg) + "\n",
                   std="17", mode="checked", incs=[inc])
    for (label, call) in (("get_g_a", "CALL(get_grp_g_a(buf, n, i0, 0));"), ("set_g_e", "IN(u64, v); CALL(set_grp_g_e(buf, n, i0, 0, v));"),
                          ("get_g_in_y", "CALL(get_grp_g_in_y(buf, n, i0, 0));"), ("ginfo_g", "i64 o[6]; CALL(ginfo_grp_g(buf, n, i0, 0, o));"),
                          ("gbytes_g", "CALL(gbytes_grp_g(buf, n, 0, 0));"), ("ebytes_g", "CALL(ebytes_grp_g(buf, n, i0, 0));")):
        body = """  enum { NMAX = 28 };
  IN_BYTES(img, NMAX); IN(u64, n); VASSUME(n <= NMAX);
  /* grp: header(8) | root block (compiled 4, wire == 4) | group g: {blockLength u16, numInGroup u16} at 12: BOTH ANY VALUE | entries ... */
  img[%(obl)d] = 4; img[%(obl)d + 1] = 0;
  u64 cnt = ref_rd(img + 14, 2, 0);
  unsigned char *buf = VMALLOC(n); for (unsigned i = 0; i < NMAX; i++) if (i < n) buf[i] = img[i];
  IN(u32, i0); VASSUME(i0 < cnt);
  %(call)s
  VASSERT(verif_aborted || !verif_oob, "hostile group header: if the assertion handler is not invoked, no byte at or beyond p+n was accessed");
""" % {"obl": gg.hdr["blockLength"][0], "call": call}
        hs.append(P.Harness("%s_grp_hostile_header_%s_cxx17" % (sch.ns, label), hgen.harness([ug], body), [ug], unwind=4, track=True, cap=ctx.q(600, 1200), backends=["minisat", "kissat", "z3"],
                            desc="%s.grp: %s with the group's wire blockLength and numInGroup ANY uint16 values, any valid entry index, view bound to malloc(n), n in 0..28" % (sch.ns, label),
                            bounds={"NMAX": 28, "blockLength": "0..65535", "numInGroup": "0..65535", "index": "< numInGroup", "std": "c++17"}))
    # hostile / extreme <data> length: a length prefix at the top of its (uint8) type with a view shorter than the message
    msg = sch.message("odd")
    g = msggen.MG(sch, msg, 1)
    u = ctx.lower("c10_%s_%s" % (sch.ns, "odd"), g.cpp_prelude() + g.cpp_getset(True) + g.cpp_geom(True, True) + g.cpp_cursor() + cpp_extra(g) + c17.cpp(g) + c05.cpp_csize(g) + "\n",
                  std="17", mode="checked", incs=[inc])
    for (label, call) in (("dinfo_da", "i64 o[4]; IN(u32, k); VASSUME(k < 256); CALL(dinfo_odd_da(buf, n, 0, 0, k, o));"),
                          ("dset_da", "IN(u64, v); IN(u32, k); VASSUME(k < img[14]); CALL(dset_odd_da(buf, n, 0, 0, k, v));"),
                          ("dresize_da", "IN(u64, v); VASSUME(v <= 255); CALL(dresize_odd_da(buf, n, 0, 0, v));")):
        body = """  enum { NMAX = 24 };
  IN_BYTES(img, NMAX); IN(u64, n); VASSUME(n <= NMAX);
  /* odd: header(8) with blockLength 0, two empty groups (ge: 2-byte header, gc: 4-byte header) => <data> 'da' (uint8 length) at offset 14; its length byte is ANY value 0..255 */
  img[%(obl)d] = 0; img[%(obl)d + 1] = 0; img[8] = 0; img[9] = 0; img[10] = 0; img[11] = 0; img[12] = 0; img[13] = 0;
  unsigned char *buf = VMALLOC(n); for (unsigned i = 0; i < NMAX; i++) if (i < n) buf[i] = img[i];
  %(call)s
  VASSERT(verif_aborted || !verif_oob, "if the assertion handler is not invoked, no byte at or beyond p+n was accessed (length prefix at the top of its type included)");
  if (n >= 15 + (u64)img[14] && %(nospur)s) VASSERT(!verif_aborted, "with the whole <data> inside the buffer the handler is never invoked");
""" % {"obl": g.hdr["blockLength"][0], "call": call, "nospur": "0" if label == "dresize_da" else "1"}
        hs.append(P.Harness("%s_odd_bigdata_%s_cxx17" % (sch.ns, label), hgen.harness([u], body), [u], unwind=4, track=True, cap=ctx.q(600, 1200), backends=["minisat", "kissat"],
                            desc="%s.odd: %s with the <data> length prefix anywhere in 0..255 (incl. the uint8 maximum) on a view bound to malloc(n), n in 0..24" % (sch.ns, label),
                            bounds={"NMAX": 24, "length": "0..255", "std": "c++17"}))
    # hostile <data> length of a 64-bit length type: sizeof(length) + length wraps in size_t, the size check must still refuse it
    schd, incd = hgen.gen_headers(ctx, "vs_data_le.xml")
    for mname, lsz in (("m_uint64_char", 8), ("m_uint32_uint8", 4)):
        msg = schd.message(mname)
        g = msggen.MG(schd, msg, 1)
        u = ctx.lower("c10_%s_%s" % (schd.ns, mname), g.cpp_prelude() + g.cpp_getset(True) + g.cpp_geom(True, True) + g.cpp_cursor() + cpp_extra(g) + c17.cpp(g) + c05.cpp_csize(g) + "\n",
                      std="17", mode="checked", incs=[incd])
        for (label, call) in (("dinfo_d", "i64 o[4]; IN(u64, k); VASSUME(k < len); CALL(dinfo_%s_d(buf, n, 0, 0, k, o));" % mname),
                              ("dset_d", "IN(u64, v); IN(u64, k); VASSUME(k < len); CALL(dset_%s_d(buf, n, 0, 0, k, v));" % mname),
                              ("dresize_d", "IN(u64, v); VASSUME(v <= %s); CALL(dresize_%s_d(buf, n, 0, 0, v));" % ("0x%xULL" % ((1 << (8 * lsz)) - 1), mname))):
            body = """  enum { NMAX = 28, LSZ = %(lsz)d };
  IN_BYTES(img, NMAX); IN(u64, n); VASSUME(n <= NMAX);
  /* header(8) with blockLength 0, then the <data> member: its length prefix is ANY value of the %(bits)d-bit length type */
  img[%(obl)d] = 0; img[%(obl)d + 1] = 0;
  u64 len = ref_rd(img + 8, LSZ, 0);
  unsigned char *buf = VMALLOC(n); for (unsigned i = 0; i < NMAX; i++) if (i < n) buf[i] = img[i];
  %(call)s
  VASSERT(verif_aborted || !verif_oob, "if the assertion handler is not invoked, no byte at or beyond p+n was accessed (length prefix anywhere in its type: sizeof(length) + length must not wrap past the size check)");
""" % {"obl": g.hdr["blockLength"][0], "call": call, "lsz": lsz, "bits": 8 * lsz}
            hs.append(P.Harness("%s_%s_widelen_%s_cxx17" % (schd.ns, mname, label), hgen.harness([u], body), [u], unwind=4, track=True, cap=ctx.q(600, 1200), backends=["minisat", "kissat"],
                                desc="%s.%s: %s with the <data> length prefix anywhere in its %d-bit type on a view bound to malloc(n), n in 0..28" % (schd.ns, mname, label, 8 * lsz),
                                bounds={"NMAX": 28, "length": "full range of the length type", "std": "c++17"}))
    # every <data> container operation on a view bound to malloc(n): the length prefix already in the buffer is ANY value up to NMAX+6 (stale / hostile: larger than the view allows),
    # arguments are valid for a vector of that size; handler-or-in-bounds, and no handler when old and new contents fit
    import c13
    dsel = ("uint8le_char", "uint16be_uint8", "uint64le_char") if ctx.quick else ("uint8le_char", "uint16be_uint8", "uint32le_uint8", "uint64le_char", "uint64be_uint8")
    for inst in [i for i in c13.insts() if i[0] in dsel]:
        (I, v_, l_, en_, lsz, be) = inst
        for std in (("17",) if ctx.quick else ("11", "17", "20")):
            ud = ctx.lower("c13", c13.cpp([inst]), std=std, mode="checked")
            text = dataop_harness(ud, inst)
            # the allocation size is enumerated (one query per n): a symbolic malloc size makes every tracked access of the shifting loops a case split over n
            # (measured: > 600 s per operation with n symbolic, 2-3 s with n fixed)
            ns = sorted({0, max(lsz - 1, 0), lsz, lsz + 1, lsz + 2, lsz + 4}) if ctx.quick else list(range(0, lsz + 7))
            for k, opname in enumerate(c13.OPS):
                if opname == "observers": continue
                for nv in ns:
                    if nv < lsz and k in (1, 7, 19, 20, 21, 22): continue   # these need a non-empty vector; with a view shorter than the prefix the model length is 0
                    hs.append(P.Harness("dataop_%s_op%02d_%s_n%d_cxx%s" % (I, k, opname, nv, std), text, [ud], unwind=14, track=True, cap=ctx.q(600, 1200), defines=["VERIF_WHICH=%d" % k, "VERIF_N=%d" % nv],
                                        backends=["minisat", "kissat"],
                                        desc="dynamic_array_ref<char,%s,%s,%s>::%s on a view bound to malloc(%d), length prefix in the buffer anywhere in 0..10 (beyond the view included), vector-valid arguments: handler invoked or no access at/after p+n; no handler when old and new contents fit" % (v_, l_, "BE" if be else "LE", opname, nv),
                                        bounds={"n": nv, "prefix": "0..10", "source_len": "0..3", "std": "c++" + std, "operation": opname}))
    return hs


def dataop_harness(u, inst):
    (I, v, l, en, lsz, be) = inst
    b = r"""
  enum { NMAX = 16, LSZ = %(lsz)d, LMAX = 10 };
  IN_BYTES(img, NMAX); const u64 n = VERIF_N;   /* enumerated: one query per allocation size */
  unsigned char *view = VMALLOC(n); for (unsigned i = 0; i < NMAX; i++) if (i < n) view[i] = img[i];   /* exact-size allocation */
  u64 L = n >= LSZ ? ref_rd(img, LSZ, %(be)d) : 0;     /* the length prefix already in the buffer: any value up to LMAX, also beyond what the view can hold */
  VASSUME(L <= LMAX);
  IN_BYTES(s, 4); IN(u32, k); IN(u64, pos); IN(u64, pos2); IN(u64, cnt); IN(u8, v); SELECT(which);
  VASSUME(k <= 3); VASSUME(pos <= L); VASSUME(pos2 <= L); VASSUME(cnt <= LMAX);
  u64 NL = L; i64 ret = 0; const u64 VS = n;
  switch (which) {
  case 0: NL = L + 1; CALL(push_back_%(I)s(view, VS, v)); break;
  case 1: VASSUME(L >= 1); NL = L - 1; CALL(pop_back_%(I)s(view, VS)); break;
  case 2: NL = L + 1; CALL(ret = insert1_%(I)s(view, VS, pos, v)); break;
  case 3: NL = L + cnt; CALL(ret = insertn_%(I)s(view, VS, pos, cnt, v)); break;
  case 4: NL = L + k; CALL(ret = insertfw_%(I)s(view, VS, pos, s, k)); break;
  case 5: NL = L + k; CALL(ret = insertin_%(I)s(view, VS, pos, s, k)); break;
  case 24: NL = L + k; CALL(ret = insertsp_%(I)s(view, VS, pos, s, k)); break;
  case 6: NL = L + k; if (k == 0) CALL(ret = insertil0_%(I)s(view, VS, pos, s)); else if (k == 1) CALL(ret = insertil1_%(I)s(view, VS, pos, s));
          else if (k == 2) CALL(ret = insertil2_%(I)s(view, VS, pos, s)); else CALL(ret = insertil3_%(I)s(view, VS, pos, s)); break;
  case 7: VASSUME(pos < L); NL = L - 1; CALL(ret = erase1_%(I)s(view, VS, pos)); break;
  case 8: VASSUME(pos <= pos2); NL = L - (pos2 - pos); CALL(ret = erase2_%(I)s(view, VS, pos, pos2)); break;
  case 9: NL = cnt; CALL(resize_%(I)s(view, VS, cnt)); break;
  case 10: NL = cnt; CALL(resizev_%(I)s(view, VS, cnt, v)); break;
  case 11: NL = cnt; CALL(resized_%(I)s(view, VS, cnt)); break;
  case 12: NL = cnt; CALL(assignn_%(I)s(view, VS, cnt, v)); break;
  case 13: NL = k; CALL(assignit_%(I)s(view, VS, s, k)); break;
  case 23: NL = k; CALL(assignsp_%(I)s(view, VS, s, k)); break;
  case 16: NL = k; CALL(assignrg_%(I)s(view, VS, s, k)); break;
  case 15: NL = k; for (unsigned i = 0; i < 3; i++) if (i < k) VASSUME(s[i] != 0); s[k] = 0; CALL(assignstr_%(I)s(view, VS, s)); break;
  case 14: NL = k; if (k == 0) CALL(assignil0_%(I)s(view, VS, s)); else if (k == 1) CALL(assignil1_%(I)s(view, VS, s));
           else if (k == 2) CALL(assignil2_%(I)s(view, VS, s)); else CALL(assignil3_%(I)s(view, VS, s)); break;
  case 17: NL = 0; CALL(clear_%(I)s(view, VS)); break;
  case 19: VASSUME(pos2 < L); NL = L + 1; CALL(ret = insert1a_%(I)s(view, VS, pos, pos2)); break;
  case 20: VASSUME(pos2 < L); NL = L + 1; CALL(pushbacka_%(I)s(view, VS, pos2)); break;
  case 21: VASSUME(pos2 < L); NL = cnt; CALL(resizeva_%(I)s(view, VS, cnt, pos2)); break;
  case 22: VASSUME(pos2 < L); NL = cnt; CALL(assignna_%(I)s(view, VS, cnt, pos2)); break;
  default: VASSUME(0);
  }
  VASSERT(verif_aborted || !verif_oob, "<data> operation: if the assertion handler is not invoked, no byte at or beyond p+n was accessed (whatever length prefix the buffer held before)");
  if (n >= LSZ && LSZ + L <= n && LSZ + NL <= n) VASSERT(!verif_aborted, "an operation whose old and new contents lie inside the buffer never invokes the handler");
""" % {"lsz": lsz, "be": 1 if be else 0, "I": I}
    return hgen.harness([u], b)
