"""C06 -- size_bytes_checked is safe and exact on untrusted buffers (malloc(n), n symbolic, every byte symbolic)."""
import hgen, msggen
from hgen import P, M
from msggen import SZ, pn

# known-finding classes (see known_findings.json); the reference sets a flag when the input is in the class
KF = {"F6a": "kf_a", "F6b": "kf_b", "F6c": "kf_c"}


def fields_end(node):
    fs = [f for f in node.fields if not f.is_constant]
    return max([f.offset + f.size for f in fs] + [0])


def entry_min_consume(gr):
    """bytes every entry of gr consumes besides its block (headers of nested members)"""
    return sum(g2.dim.size for g2 in gr.groups) + sum(dt.typ.size for dt in gr.data)


def ref_c(g, name, node, is_group):
    """reference: ideal validate-before-read walk. out: valid, size, class flags"""
    be = g.be
    o = ["struct sbc_ref { int valid; u64 size; int kf_a, kf_b, kf_c; u64 maxcnt; };",
         "static void ref_sbc_%s(const unsigned char *b, u64 n, struct sbc_ref *r) {" % name,
         "  const int BE = %d; u64 pos = 0; r->valid = 0; r->size = 0; r->kf_a = r->kf_b = r->kf_c = 0; r->maxcnt = 0;" % be]
    cnt = [0]

    def level(node, d, start, bl):
        L = []
        fe = fields_end(node)
        if fe:
            L.append("  if (%s < %d && %s + %d > n) r->kf_c = 1;   /* compiled fields beyond a shorter wire block and beyond the buffer */" % (bl, fe, start, fe))
        L.append("  pos = %s + %s;" % (start, bl))
        for gr in node.groups:
            L += group(gr, d)
        for dt in node.data:
            lm = dt.length_member; lsz = SZ[lm.typ.prim]; hs = dt.typ.size
            L.append("  if (n - pos < %d) { r->kf_a = 1; return; }   /* library reads the length prefix before validating */" % hs)
            L.append("  { u64 len = ref_rd(b + pos + %d, %d, BE); if (n - pos - %d < len) return; pos += %d + len; }" % (lm.offset, lsz, hs, hs))
        return L

    def group(gr, d):
        k = cnt[0]; cnt[0] += 1
        hf = M.header_fields(gr.dim); dsz = gr.dim.size
        (obl, pbl), (on, pnn) = hf["blockLength"], hf["numInGroup"]
        L = ["  if (n - pos < %d) return;" % dsz,
             "  u64 bl%d = ref_rd(b + pos + %d, %d, BE), cn%d = ref_rd(b + pos + %d, %d, BE); pos += %d; if (cn%d > r->maxcnt) r->maxcnt = cn%d;" % (k, obl, SZ[pbl], k, on, SZ[pnn], dsz, k, k)]
        if entry_min_consume(gr) == 0:
            # flat group
            L.append("  if (bl%d == 0) { if (cn%d > NMAX) r->kf_b = 1;   /* entries consume nothing: the library still iterates numInGroup times */" % (k, k))
            fe = fields_end(gr)
            if fe:
                L.append("    if (cn%d > 0 && pos + %d > n) r->kf_c = 1;" % (k, fe))
            L.append("  } else {")
            L.append("    for (unsigned i%d = 0; i%d < NMAX + 1; i%d++) if (i%d < cn%d) { if (n - pos < bl%d) return; u64 st%d = pos;" % (d, d, d, d, k, k, k))
            if fe:
                L.append("      if (bl%d < %d && st%d + %d > n) r->kf_c = 1;" % (k, fe, k, fe))
            L.append("      pos = st%d + bl%d; }" % (k, k))
            L.append("  }")
        else:
            L.append("  for (unsigned i%d = 0; i%d < NMAX + 1; i%d++) if (i%d < cn%d) { if (n - pos < bl%d) return; u64 st%d = pos;" % (d, d, d, d, k, k, k))
            L += ["    " + x for x in level(gr, d + 1, "st%d" % k, "bl%d" % k)]
            L.append("  }")
        return L

    if is_group:
        o += group(node, 0)
    else:
        obl, pbl = g.hdr["blockLength"]
        o.append("  if (n < %d) return;" % g.HDR)
        o.append("  u64 rbl = ref_rd(b + %d, %d, BE); if (n - %d < rbl) return;" % (obl, SZ[pbl], g.HDR))
        o += level(node, 0, "%d" % g.HDR, "rbl")
    o += ["  r->valid = 1; r->size = pos;", "}"]
    return "\n".join(o) + "\n"


def cpp(g):
    o = [g.cpp_prelude()]
    o.append("W bool sbc_%s(char* p, size_t n, uint64_t* size){ %s auto r = sbepp::size_bytes_checked(m, n); *size = r.size; return r.valid; }" % (g.M, g.view()))
    o.append("W bool sbcc_%s(const char* p, size_t n, uint64_t* size){ %s auto r = sbepp::size_bytes_checked(m, n); *size = r.size; return r.valid; }" % (g.M, g.view(const=True)))
    for gr in g.msg.groups:
        tag = "%s::schema::messages::%s::%s" % (g.ns, g.M, gr.name)
        o.append("W bool sbcg_%s_%s(char* p, size_t n, uint64_t* size){ typename sbepp::group_traits<%s>::template value_type<char> gv{p, n}; auto r = sbepp::size_bytes_checked(gv, n); *size = r.size; return r.valid; }" % (g.M, gr.name, tag))
    return "\n".join(o) + "\n"


def harness(u, g, fn, refname, refc, nmax, excluded, twin=None, checked=False, maxcnt=None):
    body = "  IN_BYTES(img, NMAX); IN(u64, n); VASSUME(n <= NMAX);\n"
    body += "  unsigned char *buf = VMALLOC(n); for (unsigned i = 0; i < NMAX; i++) if (i < n) buf[i] = img[i];   /* exact-size allocation: any access at offset >= n is outside the object */\n"
    body += "  struct sbc_ref r; ref_sbc_%s(img, n, &r);\n" % refname
    for f in excluded:
        body += "  VASSUME(!r.%s);   /* open known finding %s: excluded input class, re-derived by its twin */\n" % (KF[f], f)
    if twin:
        body += "  VASSUME(r.%s);   /* twin of open known finding %s */\n" % (KF[twin], twin)
    if maxcnt is not None:
        body += "  VASSUME(r.maxcnt <= %d);   /* structure harness: every numInGroup the reference walk reaches is small; hostile counts are the job of the small-buffer harness */\n" % maxcnt
    body += "  u64 size = 0; _Bool valid = 0;\n"
    body += "  CALL(valid = %s(buf, n, &size));\n" % fn
    if checked:
        body += '  VASSERT(!verif_aborted, "size_bytes_checked returns on any buffer (the assertion handler is not an acceptable outcome for untrusted input)");\n'
    body += '  VASSERT(!verif_oob, "size_bytes_checked reads no byte at offset >= n");\n'
    body += '  VASSERT(valid == (r.valid != 0), "valid == the structure the buffer describes fits in n bytes");\n'
    body += '  if (r.valid) VASSERT(size == r.size, "reported size == exact message size");\n'
    body += '  for (unsigned i = 0; i < NMAX; i++) if (i < n) VASSERT(buf[i] == img[i], "size_bytes_checked never writes");\n'
    return hgen.harness([u], body, pre="#define NMAX %d\n" % nmax + refc)


def build(ctx):
    hs = []
    ctx.assumptions = ["buffer = malloc(n) with n symbolic in 0..NMAX and every byte symbolic: covers every truncation point and every corruption of every header/dimension/length field at once",
                       "unchecked build (the realistic configuration for untrusted input) is the primary target; the checked build is covered in the thorough tier",
                       "VERIF_TRACK mode: every load/store and every H1 touch of the translated code is tested with __CPROVER_r_ok/w_ok against the exact allocation",
                       "work bound: --unwind NMAX+2 with unwinding assertions: a loop iterating more than NMAX+1 times is a violation of 'work bounded by a function of n'"]
    sch, inc = hgen.gen_headers(ctx, "vs_msg_le.xml")
    schb, incb = hgen.gen_headers(ctx, "vs_msg_be.xml")
    sel = [("grp", 28), ("nsm", 24), ("odd", 20), ("tailc", 22)] if ctx.quick else [("grp", 34), ("nsm", 30), ("odd", 24), ("tailc", 26), ("nest", 40), ("misc", 60)]
    plan = [(sch, inc, "17", "unchecked")] if ctx.quick else [(sch, inc, "17", "unchecked"), (schb, incb, "20", "unchecked"), (sch, inc, "17", "checked"), (sch, inc, "11", "unchecked")]
    # second family (vs_msg2): message without members, entries ending in a nested group, entries without fields, several data members per level, three sibling groups
    sch2, inc2 = hgen.gen_headers(ctx, "vs_msg2_le.xml")
    sel2 = [("empty", 12), ("gng", 20), ("d3", 20)] if ctx.quick else [("empty", 14), ("gng", 26), ("d3", 26), ("g3", 26), ("lastcomp", 24), ("lastset", 30)]
    sels = {id(sch2): sel2}
    plan += [(sch2, inc2, "17", "unchecked")] if ctx.quick else [(sch2, inc2, "17", "unchecked"), (sch2, inc2, "20", "checked")]
    # <data> whose length prefix is 32 / 64 bits wide: hostile lengths up to the type maximum (8 + length wraps in size_t for a 64-bit length)
    sch3, inc3 = hgen.gen_headers(ctx, "vs_data_le.xml"); sch3b, inc3b = hgen.gen_headers(ctx, "vs_data_be.xml")
    sels[id(sch3)] = [("m_uint64_char", 14), ("m_uint32_uint8", 10)]; sels[id(sch3b)] = [("m_uint64_uint8", 14), ("m_uint16_char", 8)]
    plan += [(sch3, inc3, "17", "unchecked")] if ctx.quick else [(sch3, inc3, "17", "unchecked"), (sch3b, inc3b, "20", "unchecked")]
    # group dimensions of every width (vs_dims): hostile numInGroup x blockLength products up to 2^128 (the true size does not fit in size_t; entries of a flat group must
    # still be validated against n one by one or with arithmetic that cannot wrap), nested groups with 64-bit counts
    sch4, inc4 = hgen.gen_headers(ctx, "vs_dims.xml")
    sels[id(sch4)] = [("m_uint64_uint64", 30), ("m_uint8_uint64", 22), ("m_uint64_uint16", 24), ("n_uint64", 34)] if ctx.quick else \
        [("m_%s_%s" % (a, b), 34) for a in ("uint8", "uint16", "uint32", "uint64") for b in ("uint8", "uint16", "uint32", "uint64") if "64" in a + b or a == b] + [("n_uint64", 40), ("n_uint32_uint64", 40), ("n_uint64_uint8", 40)]
    plan += [(sch4, inc4, "17", "unchecked")]
    open_f = [f for f in KF if f in ctx.open]
    for (s_, inc_, std, mode) in plan:
        for (mname, nmax) in sels.get(id(s_), sel):
            msg = s_.message(mname)
            g = msggen.MG(s_, msg, 2)
            u = ctx.lower("c06_%s_%s" % (s_.ns, mname), cpp(g), std=std, mode=mode, incs=[inc_])
            targets = [("sbc_%s" % g.M, g.M, ref_c(g, g.M, msg, False), "message view"), ("sbcc_%s" % g.M, g.M, ref_c(g, g.M, msg, False), "const message view")]
            for gr in msg.groups:
                targets.append(("sbcg_%s_%s" % (g.M, gr.name), "%s_%s" % (g.M, gr.name), ref_c(g, "%s_%s" % (g.M, gr.name), gr, True), "group view %s" % gr.name))
            nested = any(gr.groups for gr in msg.groups)
            if ctx.quick: targets = [t for t in targets if not t[0].startswith("sbcc_") and not (nested and t[0].startswith("sbc_"))]   # nsm message view: thorough tier (minutes)
            for (fn, refname, refc, what) in targets:
                isgrp = fn.startswith("sbcg_")
                # A: structure harness (counts <= 3, larger buffer)   B: hostile-count harness (counts unconstrained, small buffer, unwind n+2)
                small = max(8, nmax // 2) if isgrp else (g.HDR + msg.block_length + 8)
                variants = [("A", nmax - (g.HDR if isgrp else 0), 3, 6), ("B", small, None, small + 2)]
                for (vn, nm, maxcnt, unwind) in variants:
                    common = dict(unwind=unwind, track=True, cap=ctx.q(600, 1200), backends=["minisat", "kissat"],
                                  bounds={"NMAX": nm, "n": "0..%d symbolic" % nm, "numInGroup": "<= 3 where reached" if maxcnt else "unconstrained (hostile)", "std": "c++" + std, "build": mode})
                    hs.append(P.Harness("%s_%s_%s_%s_cxx%s" % (s_.ns, fn, vn, mode, std), harness(u, g, fn, refname, refc, nm, open_f, None, mode == "checked", maxcnt), [u],
                                        meta={"unwind_is_property": True, "big_loops": ["ref_sbc_%s.%d" % (refname, x) for x in range(12)]}, desc="size_bytes_checked(%s of %s.%s, n): no read at offset >= n, valid <=> fits, exact size, bounded work; all buffers with n <= %d%s" % (
                                            what, s_.ns, mname, nm, (" (excluding known-finding classes %s)" % open_f) if open_f else ""), **common))
                    if (s_, std, mode) == (plan[0][0], plan[0][2], plan[0][3]):
                        for f in open_f:
                            # one twin per finding, on the target named as its witness in known_findings.json
                            if (f, fn, vn) not in (("F6a", "sbc_odd", "A"), ("F6b", "sbcg_odd_ge", "B"), ("F6c", "sbc_tailc", "A")): continue
                            hs.append(P.Harness("%s_%s_%s_twin_%s_cxx%s" % (s_.ns, fn, vn, f, std), harness(u, g, fn, refname, refc, nm, [x for x in open_f if x != f], f, False, maxcnt), [u], expect="refuted",
                                                meta={"unwind_is_property": True, "finding": f, "big_loops": ["ref_sbc_%s.%d" % (refname, x) for x in range(12)]}, witness=False,
                                                desc="twin of known finding %s on %s" % (f, fn), **common))
    return hs
