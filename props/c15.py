"""C15 -- set choices are independent bits for every encoding width."""
import hgen
from hgen import P, M

CT = {"uint8": ("uint8_t", "u8", 8), "uint16": ("uint16_t", "u16", 16), "uint32": ("uint32_t", "u32", 32), "uint64": ("uint64_t", "u64", 64)}


def kernel_cpp():
    s = hgen.W_PRELUDE + "#include <sbepp/sbepp.hpp>\n"
    s += "template<class T> struct bs : sbepp::detail::bitset_base<T> { using sbepp::detail::bitset_base<T>::bitset_base; using sbepp::detail::bitset_base<T>::operator(); };\n"
    for p, (ct, hs, w) in CT.items():
        s += "W bool k_get_%s(%s v, uint8_t n){ return bs<%s>{v}(sbepp::detail::get_bit_tag{}, n); }\n" % (hs, ct, ct)
        s += "W uint64_t k_set_%s(%s v, uint8_t n, bool b){ bs<%s> s{v}; s(sbepp::detail::set_bit_tag{}, n, b); return *s; }\n" % (hs, ct, ct)
        s += "W bool k_eq_%s(%s a, %s b){ return bs<%s>{a} == bs<%s>{b}; }\n" % (hs, ct, ct, ct, ct)
        s += "W bool k_ne_%s(%s a, %s b){ return bs<%s>{a} != bs<%s>{b}; }\n" % (hs, ct, ct, ct, ct)
        s += "W uint64_t k_raw_%s(%s a){ bs<%s> s; *s = a; const bs<%s>& c = s; return *c; }\n" % (hs, ct, ct, ct)
        s += "W uint64_t k_default_%s(){ return *bs<%s>{}; }\n" % (hs, ct)
    return s


def kernel_harness(u, hs, w):
    body = """
  IN(%(hs)s, v); IN(u8, n); IN(u8, b); IN(%(hs)s, v2);
  VASSUME(n < %(w)d); VASSUME(b <= 1);
  _Bool g = 0; u64 r = 0; _Bool e = 0, ne = 0; u64 raw = 0, dflt = 1;
  CALL(g = k_get_%(hs)s(v, n));
  VASSERT(g == (((u64)v >> n) & 1), "choice getter reflects exactly bit n of the underlying value");
  CALL(r = k_set_%(hs)s(v, n, b));
  VASSERT(r == ((((u64)v) & ~((u64)1 << n)) | ((u64)b << n)), "choice setter changes exactly bit n and no other");
  CALL(e = k_eq_%(hs)s(v, v2)); CALL(ne = k_ne_%(hs)s(v, v2));
  VASSERT(e == (v == v2) && ne == (v != v2), "set equality is equality of underlying values");
  CALL(raw = k_raw_%(hs)s(v)); VASSERT(raw == v, "raw access returns the underlying value");
  CALL(dflt = k_default_%(hs)s()); VASSERT(dflt == 0, "default-constructed set is empty");
""" % {"hs": hs, "w": w}
    return hgen.harness([u], body)


def gen_cpp(sch):
    ns = sch.ns
    s = hgen.W_PRELUDE + "#include <%s/%s.hpp>\n" % (ns, ns)
    s += "template<typename Tag> struct tag_id;\n"
    s += "struct rec { uint8_t* idx; uint8_t* bit; uint32_t n; template<class Tag> void on_set_choice(bool v, Tag){ if(n < 8){ idx[n] = tag_id<Tag>::value; bit[n] = v; } n++; } };\n"
    s += "struct rec2 { uint8_t* bit; uint32_t n; void operator()(bool v, const char*){ if(n < 8){ bit[n] = v; } n++; } };\n"
    for t in sch.types.values():
        if t.kind != "set": continue
        ct, hs, w = CT[t.prim]
        T = "%s::types::%s" % (ns, t.name)
        for k, (cn, idx) in enumerate(t.choices):
            tag = "%s::schema::types::%s::%s" % (ns, t.name, cn)
            s += "template<> struct tag_id<%s>{ static constexpr uint8_t value = %d; };\n" % (tag, k)
            s += "W bool c_get_%s_%s(%s v){ return %s{v}.%s(); }\n" % (t.name, cn, ct, T, cn)
            s += "W uint64_t c_set_%s_%s(%s v, bool b){ %s s{v}; s.%s(b); return *s; }\n" % (t.name, cn, ct, T, cn)
            s += "W bool t_get_%s_%s(%s v){ return sbepp::get_by_tag<%s>(%s{v}); }\n" % (t.name, cn, ct, tag, T)
            s += "W uint64_t t_set_%s_%s(%s v, bool b){ %s s{v}; sbepp::set_by_tag<%s>(s, b); return *s; }\n" % (t.name, cn, ct, T, tag)
        s += "W uint32_t visit_%s(%s v, uint8_t* idx, uint8_t* bit){ rec r{idx, bit, 0}; sbepp::visit(%s{v}, r); return r.n; }\n" % (t.name, ct, T)
        s += "W uint32_t visit_set_%s(%s v, uint8_t* bit){ rec2 r{bit, 0}; sbepp::visit_set(%s{v}, r); return r.n; }\n" % (t.name, ct, T)
        s += "W bool eq_%s(%s a, %s b){ return %s{a} == %s{b}; }\n" % (t.name, ct, ct, T, T)
    return s


def gen_harness(u, t):
    ct, hs, w = CT[t.prim]
    nch = len(t.choices)
    body = "  IN(%s, v); IN(u8, b); IN(u32, which); IN(%s, v2);\n  VASSUME(b <= 1); VASSUME(which < %d);\n" % (hs, hs, nch)
    body += "  _Bool g = 0, tg = 0, e = 0; u64 r = 0, tr = 0; unsigned idx = 0;\n"
    for k, (cn, idx) in enumerate(t.choices):
        body += "  if (which == %d) { idx = %d; CALL(g = c_get_%s_%s(v)); CALL(r = c_set_%s_%s(v, b)); CALL(tg = t_get_%s_%s(v)); CALL(tr = t_set_%s_%s(v, b)); }\n" % (
            k, idx, t.name, cn, t.name, cn, t.name, cn, t.name, cn)
    body += """
  u64 ref_get = ((u64)v >> idx) & 1, ref_set = (((u64)v) & ~((u64)1 << idx)) | ((u64)b << idx);
  VASSERT(g == ref_get, "generated choice getter == bit idx of the underlying value");
  VASSERT(r == ref_set, "generated choice setter changes exactly bit idx");
  VASSERT(tg == ref_get, "get_by_tag == named getter");
  VASSERT(tr == ref_set, "set_by_tag == named setter");
  CALL(e = eq_%(t)s(v, v2)); VASSERT(e == (v == v2), "operator== on generated set");
  unsigned char ilog[8], blog[8], blog2[8]; u32 cnt = 0, cnt2 = 0;
  for (int i = 0; i < 8; i++) { ilog[i] = 255; blog[i] = 255; blog2[i] = 255; }
  CALL(cnt = visit_%(t)s(v, ilog, blog)); CALL(cnt2 = visit_set_%(t)s(v, blog2));
  VASSERT(cnt == %(n)d && cnt2 == %(n)d, "visiting reports every choice exactly once");
""" % {"t": t.name, "n": nch}
    for k, (cn, idx) in enumerate(t.choices):
        body += '  VASSERT(ilog[%d] == %d && blog[%d] == (((u64)v >> %d) & 1) && blog2[%d] == (((u64)v >> %d) & 1), "visit reports choice %s in schema order with its bit");\n' % (k, k, k, idx, k, idx, cn)
    return hgen.harness([u], body)


def build(ctx):
    hs = []
    ctx.assumptions = ["choice index n < width (the property's domain); b in {0,1}; all underlying values, all indices symbolic"]
    for std in hgen.stds(ctx, quick=("11", "14", "17", "20")):
        u = ctx.lower("c15k", kernel_cpp(), std=std, mode="unchecked")
        for p, (ct, h, w) in CT.items():
            hs.append(P.Harness("kernel_%s_cxx%s" % (h, std), kernel_harness(u, h, w), [u], unwind=2,
                                desc="bitset_base<%s>: get(n)==bit n; set(n,b) flips only bit n; ==/!=, raw, default; n symbolic" % ct,
                                bounds={"index": "0..%d (symbolic)" % (w - 1), "value": "all %d-bit values" % w, "std": "c++" + std}))
        sch, inc = hgen.gen_headers(ctx, "vs_sets.xml")
        ug = ctx.lower("c15g", gen_cpp(sch), std=std, mode="unchecked", incs=[inc])
        for t in sch.types.values():
            if t.kind != "set": continue
            hs.append(P.Harness("gen_%s_cxx%s" % (t.name, std), gen_harness(ug, t), [ug], unwind=2,
                                desc="sbeppc-generated set %s (%s, choices %s): named/by-tag get+set, ==, visit, visit_set vs. bit reference" % (t.name, t.prim, t.choices),
                                bounds={"choices": [c[1] for c in t.choices], "value": "all values", "std": "c++" + std}))
    return hs
