"""C05 -- all size computations agree with the encoded size (small-scope structure + wide-range arithmetic + trait formulas)."""
import hgen, msggen, c02, c03, c12, c13
from hgen import P, M
from msggen import SZ, pn, idx

CT = {"uint8": "uint8_t", "uint16": "uint16_t", "uint32": "uint32_t", "uint64": "uint64_t"}


def subtree_groups(g, path):
    return [(p, gr, d) for (p, gr, d) in g.groups if p[:len(path)] == path and len(p) > len(path)]


def subtree_datas(g, path):
    return [(pp, dt, d) for (pp, dt, d) in g.datas if pp[:len(path)] == path]


def cpp_csize(g):
    """cursor-based size: skip every top-level member in order, then size_bytes(m, c)"""
    steps = "".join("m.%s(sbepp::cursor_ops::skip(c)); " % f.name for f in g.msg.fields if not f.is_constant)
    steps += "".join("m.%s(sbepp::cursor_ops::skip(c)); " % gr.name for gr in g.msg.groups)
    steps += "".join("m.%s(sbepp::cursor_ops::skip(c)); " % dt.name for dt in g.msg.data)
    return "W uint64_t csize_%s(char* p, size_t n){ %s auto c = sbepp::init_cursor(m); %s return sbepp::size_bytes(m, c); }" % (g.M, g.view(), steps)


def cpp_traits(g):
    """trait-level size_bytes(counts..., total_data) of the message and of every group + cursor-based size"""
    o = []
    ns, Mn = g.ns, g.M
    def sig(groups, has_data):
        ps = ["%s c%d" % (CT[M.header_fields(gr.dim)["numInGroup"][1]], k) for k, (p, gr, d) in enumerate(groups)]
        if has_data: ps.append("uint64_t td")
        args = ["c%d" % k for k in range(len(groups))] + (["(std::size_t)td"] if has_data else [])
        return ", ".join(ps), ", ".join(args)
    ps, args = sig(g.groups, bool(g.datas))
    o.append("W uint64_t tsize_%s(%s){ return sbepp::message_traits<%s::schema::messages::%s>::size_bytes(%s); }" % (Mn, ps or "void", ns, Mn, args))
    for (path, gr, d) in g.groups:
        sub = [(path, gr, d)] + subtree_groups(g, path)
        ps, args = sig(sub, bool(subtree_datas(g, path)))
        tag = "%s::schema::messages::%s::%s" % (ns, Mn, "::".join(path))
        o.append("W uint64_t gtsize_%s_%s(%s){ return sbepp::group_traits<%s>::size_bytes(%s); }" % (Mn, pn(path), ps, tag, args))
    o.append(cpp_csize(g))
    # cursor-based size after a full traversal by visiting (entries are walked through cursor_range inside the library)
    o.append("#ifndef VERIF_WALKV\n#define VERIF_WALKV\nstruct verif_walkv {\n"
             "  template<class T, class C, class Tag> void on_message(T m, C& c, Tag){ sbepp::visit_children(m, c, *this); }\n"
             "  template<class T, class C, class Tag> bool on_group(T g, C& c, Tag){ sbepp::visit_children(g, c, *this); return false; }\n"
             "  template<class T, class C> bool on_entry(T e, C& c){ sbepp::visit_children(e, c, *this); return false; }\n"
             "  template<class T, class Tag> bool on_data(T, Tag){ return false; }\n"
             "  template<class T, class Tag> bool on_field(T, Tag){ return false; }\n};\n#endif")
    o.append("W uint64_t csizev_%s(char* p, size_t n){ %s auto c = sbepp::init_cursor(m); verif_walkv v; sbepp::visit_children(m, c, v); return sbepp::size_bytes(m, c); }" % (Mn, g.view()))
    return "\n".join(o) + "\n"


def ref_formula(g, groups, datas, root_const, cnames, inst_of):
    """C expression (unsigned __int128) of the encoded size under the compiled block lengths, from total entry counts"""
    terms = ["(unsigned __int128)%d" % root_const]
    for k, (p, gr, d) in enumerate(groups):
        inst = inst_of(p)
        terms.append("(unsigned __int128)%s * %d + (unsigned __int128)%s * %d" % (inst, gr.dim.size, cnames[p], gr.block_length))
    for (pp, dt, d) in datas:
        inst = inst_of(pp + (dt.name,))
        terms.append("(unsigned __int128)%s * %d" % (inst, dt.typ.size))
    return " + ".join(terms)


def trait_formula_harness(u, g):
    """pure integer obligation: trait size_bytes == reference formula for ALL argument values whose true size fits"""
    body = ""
    calls = []
    def mk(prefix, fname, groups, datas, root_const, top):
        nonlocal body
        cn = {}
        decl = ""
        for k, (p, gr, d) in enumerate(groups):
            t = M.header_fields(gr.dim)["numInGroup"][1]
            v = "%s_c%d" % (prefix, k); cn[p] = v
            decl += "  IN(%s, %s);\n" % ({"uint8": "u8", "uint16": "u16", "uint32": "u32", "uint64": "u64"}[t], v)
        has_data = bool(datas)
        if has_data: decl += "  IN(u64, %s_td);\n" % prefix
        def inst_of(p):
            par = p[:-1]
            if par == top: return "1"
            return cn[par]
        f = ref_formula(g, groups, datas, root_const, cn, inst_of) + (" + (unsigned __int128)%s_td" % prefix if has_data else "")
        args = ", ".join([cn[p] for (p, gr, d) in groups] + (["%s_td" % prefix] if has_data else []))
        body += decl
        body += "  { unsigned __int128 ref = %s; VASSUME(ref < ((unsigned __int128)1 << 62)); u64 got = 0; CALL(got = %s(%s));\n" % (f, fname, args)
        body += '    VASSERT((unsigned __int128)got == ref, "trait-level size_bytes(counts..., total_data_size) == header + blocks + dimension headers + length prefixes + data, for every argument value whose size fits"); }\n'
    mk("m", "tsize_%s" % g.M, g.groups, g.datas, g.HDR + g.msg.block_length, ())
    for (path, gr, d) in g.groups:
        sub = [(path, gr, d)] + subtree_groups(g, path)
        # the group itself is one instance; its own header is counted once
        mk("g_" + pn(path), "gtsize_%s_%s" % (g.M, pn(path)), sub, subtree_datas(g, path), 0, path[:-1])
    return hgen.harness([u], body)


def totals_code(g):
    """C code computing total entry counts / total data size of the image from the reference geometry r"""
    t = "  u64 td = 0;\n"
    for (p, gr, d) in g.groups:
        t += "  u64 tot_%s = 0;\n" % pn(p)
    def rec(node, path, d, guard):
        s = ""
        ix = idx(d)
        for gr in node.groups:
            n = pn(path + (gr.name,))
            s += "  %s{ tot_%s += r.%s_n%s;\n" % (guard, n, n, ix)
            s += "  for (unsigned i%d = 0; i%d < %d; i%d++) if (i%d < r.%s_n%s) {\n" % (d, d, g.G, d, d, n, ix)
            s += rec(gr, path + (gr.name,), d + 1, "")
            s += "  } }\n"
        for dt in node.data:
            n = pn(path + (dt.name,))
            s += "  td += r.%s_len%s;\n" % (n, ix)
        return s
    return t + rec(g.msg, (), 0, "")


def consistency_arms(g):
    arms = []
    args = ", ".join(["tot_%s" % pn(p) for (p, gr, d) in g.groups] + (["td"] if g.datas else []))
    code = totals_code(g)
    code += "    u64 ts = 0; CALL(ts = tsize_%s(%s)); VASSERT(ts == r.end, \"trait size_bytes(actual counts, total data) == length of the SBE image\");\n" % (g.M, args)
    arms.append(("trait_vs_image", code))
    code = "    u64 cs = 0; CALL(cs = csize_%s(buf, N)); VASSERT(!verif_aborted, \"no handler\"); VASSERT(cs == r.end, \"cursor-based size after a full traversal == length of the SBE image\");\n" % g.M
    arms.append(("cursor_size", code))
    code = "    u64 cs = 0; CALL(cs = csizev_%s(buf, N)); VASSERT(!verif_aborted, \"no handler\"); VASSERT(cs == r.end, \"cursor-based size after a full traversal by visiting (every entry walked through the cursor) == length of the SBE image\");\n" % g.M
    arms.append(("cursor_size_visit", code))
    return arms


def wide_flat_harness(u, n, b):
    Pn = "%s_%s" % (n, b)
    body = r"""
  enum { N = 48, HDR = 8, SB = %(sb)d, SN = %(sn)d };
  IN_BYTES(buf, N);
  u64 rbl = ref_rd(buf + 0, 2, 0); VASSUME(rbl <= 2);
  u64 gpos = HDR + rbl;
  u64 bl = ref_rd(buf + gpos, SB, 0), cnt = ref_rd(buf + gpos + SB, SN, 0);
  unsigned __int128 prod = (unsigned __int128)bl * cnt;
  VASSUME(prod < ((unsigned __int128)1 << 48));     /* the resulting size fits in size_t */
  u64 gs = 0, sz = 0;
  CALL(gs = gsize_bytes_%(P)s(buf, N)); CALL(sz = size_%(P)s(buf, N));
  VASSERT(gs == SB + SN + (u64)prod, "size_bytes(flat group) == header + numInGroup x blockLength for every header value whose product fits (incl. products beyond 2^31 / 2^32)");
  VASSERT(sz == cnt, "size() == numInGroup");
""" % {"sb": c12.U[b], "sn": c12.U[n], "P": Pn}
    return hgen.harness([u], body)


def wide_data_harness(u, inst):
    (I, v, l, en, lsz, be) = inst
    body = r"""
  enum { LSZ = %(lsz)d };
  IN_BYTES(buf, 16);
  u64 L = ref_rd(buf, LSZ, %(be)d);
  VASSUME(L <= 0xfffffffffff0ULL);
  u64 sb = 0, sz = 0;
  CALL(sb = size_bytes_%(I)s(buf, 16)); CALL(sz = size_%(I)s(buf, 16));
  VASSERT(sz == L && sb == LSZ + L, "size_bytes(data) == length prefix + length for every length value (incl. the type maximum)");
""" % {"lsz": lsz, "be": 1 if be else 0, "I": I}
    return hgen.harness([u], body)


def build(ctx):
    hs = []
    G, D = 2, ctx.q(1, 2)
    ctx.assumptions = ["R1 small scope: numInGroup <= %d, data length <= %d, wire blockLength == compiled (message encoded under the current schema)" % (G, D),
                       "R2 wide range: header values fully symbolic over their type, only assumption: the true size is < 2^48 (fits in size_t); unchecked build, only the header is read",
                       "trait formulas: all argument values whose true size is < 2^62"]
    plan = [("vs_msg_le.xml", "17", "checked"), ("vs_msg2_le.xml", "17", "checked"), ("vs_hdr_j.xml", "17", "checked")] if ctx.quick else [(x, s, "checked") for s in ("11", "14", "17", "20") for x in ("vs_msg_le.xml", "vs_msg_be.xml")] + \
        [("vs_msg2_le.xml", "17", "checked"), ("vs_msg2_be.xml", "20", "checked"), ("vs_hdr_j.xml", "17", "checked")]
    plan = hgen.plan_env(plan)
    for (xml, std, mode) in plan:
        sch, inc = hgen.gen_headers(ctx, xml)
        for msg in sch.messages:
            if c02.skip2(ctx, sch, msg, ("pad", "g3", "d3", "gng", "empty", "lastcomp")): continue
            g = msggen.MG(sch, msg, G)
            ut = ctx.lower("c05t_%s_%s" % (sch.ns, msg.name), g.cpp_prelude() + cpp_traits(g), std=std, mode=mode, incs=[inc])
            hs.append(P.Harness("%s_%s_traitformula_cxx%s" % (sch.ns, msg.name, std), trait_formula_harness(ut, g), [ut], unwind=3, backends=["minisat", "z3"], cap=ctx.q(120, 900),
                                desc="message %s.%s: message_traits/group_traits size_bytes(counts..., total_data) == reference formula for all argument values" % (sch.ns, msg.name),
                                bounds={"args": "full range of each numInGroup type, total_data any; true size < 2^62", "std": "c++" + std}))
            if ctx.quick and msg.name in c02.QUICK_SKIP: continue
            u = ctx.lower("c05_%s_%s" % (sch.ns, msg.name), g.cpp_prelude() + g.cpp_getset(setters=False) + g.cpp_geom(mutators=False, sizes=True) + cpp_traits(g), std=std, mode=mode, incs=[inc])
            N = g.max_size(0, D) + 1
            arms = []
            for lv in g.levels: arms += c03.size_arms(g, lv)
            # size_bytes of every composite and fixed-length array view (at root and inside entries) == the encoded size the schema defines
            for lv in g.levels:
                arrs = {lf.name for lf in lv.leaves if lf.kind == "array" and not lf.const}
                arms += [a for a in c02.leaf_arms(g, lv, sch) if a[0].startswith("comp_") or a[0] in arrs]
            arms += consistency_arms(g)
            dynamic = bool(msg.groups or msg.data)
            groups = [[a] for a in arms] if dynamic else [arms]
            for chunk in groups:
                hs.append(P.Harness("%s_%s_%s_%s_cxx%s" % (sch.ns, msg.name, chunk[0][0], mode, std), c02.harness(u, g, chunk, N, 0, D), [u], unwind=G + 2,
                                    cap=ctx.q(600, 1200), backends=["minisat", "kissat"], extra_flags=["--no-standard-checks"],
                                    meta={"big_loops": ["ref_walk_%s.%d" % (msg.name, x) for x in range(16)]},
                                    desc="message %s.%s: %s == length of the reference image" % (sch.ns, msg.name, [a[0] for a in chunk]),
                                    bounds={"N": N, "G": G, "D": D, "std": "c++" + std, "build": mode}))
    # R2: wide-range products for the 16 dimension pairs and the 4 length types
    schd, incd = hgen.gen_headers(ctx, "vs_dims.xml")
    pairs = [(n, b) for n in c12.U for b in c12.U]
    for std in (("17",) if ctx.quick else ("11", "17", "20")):
        for j in range(0, 16, 4):
            chunk = pairs[j:j + 4]
            u = ctx.lower("c12f", c12.cpp(chunk, []), std=std, mode="unchecked", incs=[incd])
            for (n, b) in chunk:
                hs.append(P.Harness("wide_flat_%s_%s_cxx%s" % (n, b, std), wide_flat_harness(u, n, b), [u], unwind=3, backends=["z3", "minisat", "kissat"], cap=ctx.q(90, 600),
                                    extra_flags=["--no-standard-checks"],
                                    desc="flat group numInGroup=%s blockLength=%s: size_bytes for header values over the whole type range" % (n, b),
                                    bounds={"numInGroup": "full %s range" % n, "blockLength": "full %s range" % b, "product": "< 2^48", "std": "c++" + std}))
        # nested group with a uint8 numInGroup: size_bytes for EVERY entry count 0..255 (entries of minimal size), i.e. also beyond the range of the signed difference_type
        un = ctx.lower("c12n", c12.cpp([], ["uint8"]), std=std, mode="unchecked", incs=[incd])
        hs.append(P.Harness("nested_uint8_many_size_cxx%s" % std, c12.nested_many_harness(un), [un], unwind=260, backends=["minisat", "kissat"], cap=ctx.q(600, 1200), defines=["VERIF_WHICH=0"],
                            meta={"big_unwind": 300}, desc="nested group (uint8 numInGroup): size() / size_bytes() == header + sum of entry sizes for every entry count 0..255",
                            bounds={"numInGroup": "0..255 (symbolic)", "entries": "wire blockLength 0, empty <data>", "std": "c++" + std}))
        sel = [i for i in c13.insts() if i[1] == "char"]
        u = ctx.lower("c13", c13.cpp(sel), std=std, mode="unchecked")
        for inst in sel:
            hs.append(P.Harness("wide_data_%s_cxx%s" % (inst[0], std), wide_data_harness(u, inst), [u], unwind=3, cap=ctx.q(60, 300), extra_flags=["--no-standard-checks"],
                                desc="<data> with %s length (%s): size_bytes over the whole length range" % (inst[2], "BE" if inst[5] else "LE"),
                                bounds={"length": "full range of the length type", "std": "c++" + std}))
    return hs
