"""C20 (partial) -- sbeppc's exit status is truthful: the I/O half at the fs_provider seam, with nondeterministic libstdc++ stubs."""
import hgen
from hgen import P

EXPLANATION = ("Solver-based check of the real fs_provider::write_file / create_directories (lowered WITH exceptions) against a nondeterministic environment: "
               "every libstdc++ entry point they call is a stub that may fail (open, each write, close, mkdir) and records that it failed; cbmc proves for every failure pattern "
               "'some I/O step failed => the function leaves by throwing sbe_error (which main turns into a diagnostic and exit status 1)' and 'no failure => normal return'. "
               "throw_error<...> is stubbed as 'format (skipped) and throw'. NOT covered: that schema_compiler routes every file through the provider and swallows nothing, "
               "and the byte-identical-output half (unordered containers, file system state) -- both outside what the IR->C route can encode.")

CPP = r'''
#include <sbepp/sbeppc/fs_provider.hpp>
#define W extern "C" __attribute__((noinline))
W void f_write_file(sbepp::sbeppc::fs_provider* p, const std::filesystem::path* path, const char* d, size_t n){
    p->fs_provider::write_file(*path, std::string_view{d, n});
}
W void f_create_directories(sbepp::sbeppc::fs_provider* p, const std::filesystem::path* path){
    p->fs_provider::create_directories(*path);
}
'''

ENV = r'''
/* ---- environment model of the libstdc++ pieces fs_provider touches (every stub may fail; each records its failure) ---- */
unsigned char g__ZTTSt14basic_ofstreamIcSt11char_traitsIcEE[64];
static int64_t model_vt[8];               /* &model_vt[3] plays the vptr; vptr[-3] = offset of the virtual base basic_ios */
int env_open_failed, env_write_failed, env_close_failed, env_mkdir_failed, env_thrown, env_writes, env_closed;
enum { IOS_OFF = 248, STATE_OFF = 32, FILEBUF_OFF = 8 };
static unsigned char *env_stream, *env_open_path, *env_write_ptr; static uint32_t env_open_mode; static uint64_t env_write_total;
static void env_init(void){ model_vt[0] = IOS_OFF; for (int i = 0; i < 4; i++) ((unsigned char**)g__ZTTSt14basic_ofstreamIcSt11char_traitsIcEE)[i] = (unsigned char*)&model_vt[3]; }
static uint32_t *env_state(unsigned char *self){ return (uint32_t*)(self + IOS_OFF + STATE_OFF); }
void _ZNSt14basic_ofstreamIcSt11char_traitsIcEEC1EPKcSt13_Ios_Openmode(unsigned char *self, unsigned char *path, uint32_t mode){
  *(unsigned char**)self = (unsigned char*)&model_vt[3]; env_stream = self; env_open_mode = mode; env_open_path = path;
  IN(u8, open_fails); env_open_failed = open_fails & 1;
  *env_state(self) = env_open_failed ? 4u /* failbit */ : 0u;
}
unsigned char *_ZSt16__ostream_insertIcSt11char_traitsIcEERSt13basic_ostreamIT_T0_ES6_PKS3_l(unsigned char *os, unsigned char *s, uint64_t n){
  IN(u8, write_fails); env_writes++; env_write_total += n; if (env_writes == 1) env_write_ptr = s;
  if (write_fails & 1) { env_write_failed = 1; *env_state(os) |= 1u /* badbit: failed or short write */; }
  return os;
}
unsigned char *_ZNSt13basic_filebufIcSt11char_traitsIcEE5closeEv(unsigned char *fb){
  IN(u8, close_fails); env_closed = 1;
  if (close_fails & 1) { env_close_failed = 1; return (unsigned char*)0; }   /* flush/close error: returns null */
  return fb;
}
void _ZNSt9basic_iosIcSt11char_traitsIcEE5clearESt12_Ios_Iostate(unsigned char *ios, uint32_t st){ *(uint32_t*)(ios + STATE_OFF) = st; }
void _ZNSt14basic_ofstreamIcSt11char_traitsIcEED1Ev(unsigned char *self){ }
void _ZNSt13basic_filebufIcSt11char_traitsIcEED2Ev(unsigned char *self){ }
void _ZNSt8ios_baseD2Ev(unsigned char *self){ }
void _ZdlPv(unsigned char *p){ }
unsigned char *_ZNSt3_V215system_categoryEv(void){ static unsigned char cat[16]; return cat; }
_Bool _ZNSt10filesystem18create_directoriesERKNS_7__cxx114pathERSt10error_code(unsigned char *p, unsigned char *ec){
  IN(u8, mkdir_fails); IN(u32, code);
  if (mkdir_fails & 1) { VASSUME(code != 0); env_mkdir_failed = 1; *(uint32_t*)ec = code; return 0; }
  *(uint32_t*)ec = 0; return 1;
}
void verif_indirect_call_1(unsigned char *sret, unsigned char *cat, uint32_t v){ *(unsigned char**)sret = sret + 16; *(uint64_t*)(sret + 8) = 0; sret[16] = 0; }   /* error_category::message(): empty std::string */
void env_throw_error(void){ env_thrown = 1; verif_aborted = 2; }   /* throw_error<...>(): formats (skipped) and throws sbe_error */
'''


def build(ctx):
    hs = []
    ctx.assumptions = ["environment stubs (part of the claim): basic_ofstream ctor may set failbit; __ostream_insert may set badbit (failed/short write); basic_filebuf::close may return null; "
                       "filesystem::create_directories may report any non-zero error_code; destructors and operator delete do nothing; error_category::message returns an empty string; "
                       "throw_error<...> = format (skipped) + throw sbe_error; exception propagation modelled by a flag + unwinding edges of invoke/landingpad",
                       "main.cpp's single catch(sbe_error) -> diagnostic + exit status 1 is read, not encoded"]
    for std in ("17",):   # sbeppc is a C++17 program (its throw_error does not compile under C++20 fmt consteval checks)
        u = ctx.lower("c20", CPP, std=std, mode="unchecked", exceptions=True, extra=["-I" + P.REPO + "/sbeppc/src", "-I" + P.FMT_PREFIX + "/include"],
                      allow_opaque=True, inline_all=False, extern_map={"__stub_funcs__": {"throw_error": "env_throw_error"}})
        body = r"""
  env_init();
  unsigned char self[8], path[40], data[4]; static unsigned char pathstr[8] = "x";
  *(unsigned char**)path = pathstr;
  f_write_file(self, path, data, 4);
  _Bool failed = env_open_failed || env_write_failed || env_close_failed;
  VASSERT(!failed || env_thrown, "write_file: a failed open, a failed or short write, or a failed flush/close makes the call leave by throwing sbe_error (=> diagnostic, non-zero exit)");
  VASSERT(failed || !env_thrown, "write_file: without any I/O failure the call returns normally");
  VASSERT(env_open_failed || env_thrown || (env_writes >= 1 && env_closed), "write_file: on the success path the data was written and the stream closed before returning");
  VASSERT(env_open_path == pathstr, "write_file opens the file it was asked to write");
  /* libstdc++ _Ios_Openmode: app=1 ate=2 binary=4 in=8 out=16 trunc=32; an ofstream opened without app and without in (or with trunc) truncates: previous content of a populated directory cannot survive */
  VASSERT((env_open_mode & 1u) == 0 && ((env_open_mode & 8u) == 0 || (env_open_mode & 32u) != 0), "write_file truncates an existing file (no append / read-write-without-trunc mode): re-compiling into a populated directory yields the same bytes as into a fresh one");
  VASSERT(env_open_failed || env_thrown || (env_write_ptr == data && env_write_total == 4), "write_file: on the success path exactly the given bytes (all n of them, from the start) were handed to the stream");
"""
        hs.append(P.Harness("write_file_cxx%s" % std, hgen.harness([u], body, pre=ENV), [u], unwind=3, extra_flags=["--no-standard-checks"], cap=120,
                            desc="fs_provider::write_file under every failure pattern of {open, write, close}", bounds={"failure patterns": "all 8 combinations (nondeterministic stubs)", "std": "c++" + std}))
        body2 = r"""
  env_init();
  unsigned char self[8], path[40]; static unsigned char pathstr[8] = "d";
  *(unsigned char**)path = pathstr;
  f_create_directories(self, path);
  VASSERT(!env_mkdir_failed || env_thrown, "create_directories: any error_code makes the call throw sbe_error");
  VASSERT(env_mkdir_failed || !env_thrown, "create_directories: success returns normally");
"""
        hs.append(P.Harness("create_directories_cxx%s" % std, hgen.harness([u], body2, pre=ENV), [u], unwind=3, extra_flags=["--no-standard-checks"], cap=120,
                            desc="fs_provider::create_directories under success and every error_code", bounds={"error_code": "all non-zero values", "std": "c++" + std}))
    # native replay is not possible against the real libstdc++ (the stubs ARE the environment): witness replay is skipped for C20
    for h in hs: h.meta["no_native"] = True
    return hs
