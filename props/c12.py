"""C12 -- group views obey iterator and container laws for every dimension type."""
import hgen
from hgen import P

U = {"uint8": 1, "uint16": 2, "uint32": 4, "uint64": 8}

CPP = r'''
#include <vs_dims/vs_dims.hpp>
template<class G> static inline int64_t entry_off(const G& g, typename G::iterator it, const char* p) { return sbepp::addressof(*it) - p; }
#define FLAT(P) \
 static inline decltype(sbepp::make_view<vs_dims::messages::m_##P>((char*)0, 0).g()) grp_##P(char* p, size_t n){ return sbepp::make_view<vs_dims::messages::m_##P>(p, n).g(); } \
 /* applies nops iterator operations starting from begin(); records it-begin() after each step and the entry address when the model says it is dereferenceable */ \
 W void itseq_##P(char* p, size_t n, const uint8_t* ops, const int64_t* args, const uint8_t* deref, uint32_t nops, int64_t* idx, int64_t* addr, uint8_t* eqb){ \
   auto g = grp_##P(p, n); auto it = g.begin(); using D = decltype(it - it); \
   for(uint32_t k = 0; k < nops; k++){ D a = (D)args[k]; \
     switch(ops[k]){ case 0: ++it; break; case 1: --it; break; case 2: it += a; break; case 3: it -= a; break; case 4: it = it + a; break; \
                     case 5: it = it - a; break; case 6: it = a + it; break; case 7: it++; break; default: it--; break; } \
     idx[k] = (int64_t)(it - g.begin()); addr[k] = deref[k] ? (int64_t)(sbepp::addressof(*it) - p) : -1; eqb[k] = (it == g.begin()) | ((it == g.end()) << 1); } } \
 W uint32_t cmp_##P(char* p, size_t n, int64_t i, int64_t j, int64_t* dist){ auto g = grp_##P(p, n); using D = decltype(g.begin() - g.begin()); \
   auto a = g.begin() + (D)i, b = g.begin() + (D)j; *dist = (int64_t)(a - b); \
   return (a == b) | ((a != b) << 1) | ((a < b) << 2) | ((a <= b) << 3) | ((a > b) << 4) | ((a >= b) << 5); } \
 W int64_t subscript_##P(char* p, size_t n, int64_t i, int64_t k){ auto g = grp_##P(p, n); using D = decltype(g.begin() - g.begin()); auto it = g.begin() + (D)i; return sbepp::addressof(it[(D)k]) - p; } \
 W uint32_t roundtrip_##P(char* p, size_t n, int64_t i, int64_t k, int64_t* addr){ auto g = grp_##P(p, n); using D = decltype(g.begin() - g.begin()); auto it = g.begin() + (D)i; auto r = (it + (D)k) - (D)k; \
   *addr = sbepp::addressof(*r) - p; return (r == it) | (((r - it) == 0) << 1); } \
 W uint64_t size_##P(char* p, size_t n){ return (uint64_t)grp_##P(p, n).size(); } \
 W bool empty_##P(char* p, size_t n){ return grp_##P(p, n).empty(); } \
 W uint32_t beginend_##P(char* p, size_t n, int64_t* dist){ auto g = grp_##P(p, n); using D = decltype(g.begin() - g.begin()); *dist = (int64_t)(g.end() - g.begin()); \
   return ((g.begin() + (D)g.size()) == g.end()) | ((g.begin() == g.end()) << 1); } \
 /* iterators reached by stepping (++ from begin(), -- from end()), never through `+ n`: their ordering does not depend on difference_type */ \
 W uint32_t cmpbe_##P(char* p, size_t n, uint32_t k1, uint32_t k2, int64_t* addr_b){ auto g = grp_##P(p, n); auto a = g.begin(); for(uint32_t t = 0; t < k1; t++) ++a; \
   auto b = g.end(); for(uint32_t t = 0; t < k2; t++) --b; *addr_b = -1; \
   return (a == b) | ((a != b) << 1) | ((a < b) << 2) | ((a <= b) << 3) | ((a > b) << 4) | ((a >= b) << 5) | ((b < a) << 6) | ((b <= a) << 7) | ((b > a) << 8) | ((b >= a) << 9); } \
 W int64_t at_##P(char* p, size_t n, uint64_t i){ auto g = grp_##P(p, n); return sbepp::addressof(g[(decltype(g.size()))i]) - p; } \
 W int64_t front_##P(char* p, size_t n){ return sbepp::addressof(grp_##P(p, n).front()) - p; } \
 W int64_t back_##P(char* p, size_t n){ return sbepp::addressof(grp_##P(p, n).back()) - p; } \
 W uint32_t rangefor_##P(char* p, size_t n, int64_t* addrs, uint32_t cap){ uint32_t k = 0; for(auto e : grp_##P(p, n)){ if(k < cap) addrs[k] = sbepp::addressof(e) - p; k++; } return k; } \
 W uint64_t gsize_bytes_##P(char* p, size_t n){ return sbepp::size_bytes(grp_##P(p, n)); } \
 W uint64_t esize_bytes_##P(char* p, size_t n, uint64_t i){ auto g = grp_##P(p, n); return sbepp::size_bytes(g[(decltype(g.size()))i]); } \
 W void resize_##P(char* p, size_t n, uint64_t c){ grp_##P(p, n).resize((decltype(grp_##P(p, n).size()))c); } \
 W void clear_##P(char* p, size_t n){ grp_##P(p, n).clear(); }
#define NESTED(P) \
 static inline decltype(sbepp::make_view<vs_dims::messages::n_##P>((char*)0, 0).g()) ngrp_##P(char* p, size_t n){ return sbepp::make_view<vs_dims::messages::n_##P>(p, n).g(); } \
 W uint32_t nwalk_##P(char* p, size_t n, int64_t* addrs, uint64_t* sizes, uint32_t cap, uint32_t* flags){ auto g = ngrp_##P(p, n); uint32_t k = 0; *flags = 0; \
   auto it = g.begin(); for(; it != g.end(); ){ auto e = *it; if(k < cap){ addrs[k] = sbepp::addressof(e) - p; sizes[k] = sbepp::size_bytes(e); } k++; \
     auto prev = it; if(k & 1) ++it; else it++; if(prev == it) *flags |= 1; } \
   if(!(it == g.end())) *flags |= 2; return k; } \
 /* the same walk through the cursor API: entries from cursor_range, each entry's members skipped in order; records entry addresses and the final cursor position */ \
 W uint32_t ncwalk_##P(char* p, size_t n, int64_t* addrs, uint32_t cap, int64_t* cend){ auto m = sbepp::make_view<vs_dims::messages::n_##P>(p, n); auto c = sbepp::init_cursor(m); uint32_t k = 0; \
   for(auto e : m.g(c).cursor_range(c)){ if(k < cap) addrs[k] = sbepp::addressof(e) - p; k++; e.a(sbepp::cursor_ops::skip(c)); e.d(sbepp::cursor_ops::skip(c)); } \
   *cend = c.pointer() - p; return k; } \
 W uint64_t nsize_##P(char* p, size_t n){ return (uint64_t)ngrp_##P(p, n).size(); } \
 W bool nempty_##P(char* p, size_t n){ return ngrp_##P(p, n).empty(); } \
 W int64_t nfront_##P(char* p, size_t n){ return sbepp::addressof(ngrp_##P(p, n).front()) - p; } \
 W uint64_t nsize_bytes_##P(char* p, size_t n){ return sbepp::size_bytes(ngrp_##P(p, n)); } \
 W void nresize_##P(char* p, size_t n, uint64_t c){ ngrp_##P(p, n).resize((decltype(ngrp_##P(p, n).size()))c); } \
 W void nclear_##P(char* p, size_t n){ ngrp_##P(p, n).clear(); }
'''


def cpp(flat, nested):
    s = hgen.W_PRELUDE + CPP
    for (n, b) in flat: s += "FLAT(%s_%s)\n" % (n, b)
    for n in nested: s += "NESTED(%s)\n" % n
    return s


GEOM = r"""
  enum { N = 48, HDR = 8, SB = %(sb)d, SN = %(sn)d, MAXSZ = %(maxsz)d, MAXBL = %(maxbl)d };
  IN_BYTES(buf, N); unsigned char old[N]; verif_copy(old, buf, N);
  u64 rbl = ref_rd(buf + 0, 2, 0);
  VASSUME(rbl <= 2);
  u64 gpos = HDR + rbl;
  u64 bl = ref_rd(buf + gpos, SB, 0), cnt = ref_rd(buf + gpos + SB, SN, 0);
  VASSUME(bl <= MAXBL); VASSUME(cnt <= MAXSZ);
  u64 data0 = gpos + SB + SN;
"""


def flat_harness(u, n, b, maxsz, maxbl, depth):
    Pn = "%s_%s" % (n, b)
    body = GEOM % {"sb": U[b], "sn": U[n], "maxsz": maxsz, "maxbl": maxbl}
    body += r"""
  SELECT(which);
  if (which == 0) {
    /* symbolic operation sequence of depth DEPTH on an iterator; the model is the index j */
    enum { DEPTH = %(depth)d };
    IN_BYTES(ops, DEPTH); i64 args[DEPTH]; unsigned char deref[DEPTH]; i64 idx[DEPTH], addr[DEPTH]; unsigned char eqb[DEPTH]; i64 jm[DEPTH];
    IN(i64, a0); IN(i64, a1); IN(i64, a2); IN(i64, a3); IN(u32, nops);
    i64 av[4] = {a0, a1, a2, a3};
    VASSUME(nops >= 1 && nops <= DEPTH);
    i64 j = 0;
    for (unsigned k = 0; k < DEPTH; k++) {
      args[k] = av[k]; idx[k] = -7; addr[k] = -7; eqb[k] = 9; deref[k] = 0; jm[k] = 0;
      if (k < nops) {
        VASSUME(ops[k] <= 8);
        i64 a = args[k];
        VASSUME(a >= -(i64)MAXSZ && a <= (i64)MAXSZ);
        switch (ops[k]) { case 0: case 7: j += 1; break; case 1: case 8: j -= 1; break; case 2: case 4: case 6: j += a; break; default: j -= a; break; }
        VASSUME(j >= 0 && j <= (i64)cnt);      /* iterator stays inside [begin, end] */
        jm[k] = j; deref[k] = j < (i64)cnt;
      }
    }
    CALL(itseq_%(P)s(buf, N, ops, args, deref, nops, idx, addr, eqb));
    VASSERT(!verif_aborted, "in-range iterator arithmetic must not invoke the handler");
    for (unsigned k = 0; k < DEPTH; k++) if (k < nops) {
      VASSERT(idx[k] == jm[k], "it - begin() == model index after every step");
      if (deref[k]) VASSERT(addr[k] == (i64)(data0 + (u64)jm[k] * bl), "addressof(*it) == data start + index x wire blockLength");
      VASSERT((eqb[k] & 1) == (jm[k] == 0), "it == begin() iff index 0");
      VASSERT(((eqb[k] >> 1) & 1) == (jm[k] == (i64)cnt), "it == end() iff index == size");
    }
  } else if (which == 1) {
    IN(i64, i); IN(i64, jx); VASSUME(i >= 0 && i <= (i64)cnt && jx >= 0 && jx <= (i64)cnt);
    i64 dist = 99; u32 m = 0;
    CALL(m = cmp_%(P)s(buf, N, i, jx, &dist));
    VASSERT(!verif_aborted, "no handler");
    VASSERT(dist == i - jx, "distance between iterators == difference of indices");
    VASSERT(m == (u32)((i == jx) | ((i != jx) << 1) | ((i < jx) << 2) | ((i <= jx) << 3) | ((i > jx) << 4) | ((i >= jx) << 5)), "all six comparisons agree with index comparison");
  } else if (which == 2) {
    IN(i64, i); IN(i64, k); VASSUME(k >= -(i64)MAXSZ && k <= (i64)MAXSZ); VASSUME(i >= 0 && i <= (i64)cnt && i + k >= 0 && i + k < (i64)cnt);
    i64 r = -1;
    CALL(r = subscript_%(P)s(buf, N, i, k));
    VASSERT(!verif_aborted, "no handler");
    VASSERT(r == (i64)(data0 + (u64)(i + k) * bl), "it[n] is *(it+n), for positive and negative n");
  } else if (which == 3) {
    IN(i64, i); IN(i64, k); VASSUME(k >= -(i64)MAXSZ && k <= (i64)MAXSZ); VASSUME(i >= 0 && i < (i64)cnt && i + k >= 0 && i + k <= (i64)cnt);
    i64 ad = -1; u32 f = 0;
    CALL(f = roundtrip_%(P)s(buf, N, i, k, &ad));
    VASSERT(!verif_aborted, "no handler");
    VASSERT(f == 3, "(it+n)-n == it (operator== and distance 0)");
    VASSERT(ad == (i64)(data0 + (u64)i * bl), "(it+n)-n designates the same entry address as it");
  } else if (which == 4) {
    u64 sz = 99, gsb = 0; _Bool em = 0; i64 dist = -1; u32 f = 0;
    CALL(sz = size_%(P)s(buf, N)); CALL(em = empty_%(P)s(buf, N)); CALL(f = beginend_%(P)s(buf, N, &dist)); CALL(gsb = gsize_bytes_%(P)s(buf, N));
    VASSERT(!verif_aborted, "no handler");
    VASSERT(sz == cnt && em == (cnt == 0), "size()/empty() reflect wire numInGroup");
    VASSERT((f & 1) == 1 && dist == (i64)cnt && ((f >> 1) & 1) == (cnt == 0), "begin()+size()==end(); end()-begin()==size()");
    VASSERT(gsb == SB + SN + cnt * bl, "size_bytes(group) == header + numInGroup x wire blockLength");
  } else if (which == 5) {
    IN(u64, i); VASSUME(i < cnt);
    i64 r = -1, fr = -1, bk = -1; u64 esz = 0;
    CALL(r = at_%(P)s(buf, N, i)); CALL(fr = front_%(P)s(buf, N)); CALL(bk = back_%(P)s(buf, N)); CALL(esz = esize_bytes_%(P)s(buf, N, i));
    VASSERT(!verif_aborted, "valid index: no handler");
    VASSERT(r == (i64)(data0 + i * bl) && fr == (i64)data0 && bk == (i64)(data0 + (cnt - 1) * bl), "operator[]/front/back start at data start + i x wire blockLength");
    VASSERT(esz == bl, "size_bytes(entry) == wire blockLength");
  } else if (which == 6) {
    i64 ad[MAXSZ + 1]; u32 k = 0;
    for (unsigned i = 0; i < MAXSZ + 1; i++) ad[i] = -1;
    CALL(k = rangefor_%(P)s(buf, N, ad, MAXSZ + 1));
    VASSERT(!verif_aborted, "no handler");
    VASSERT(k == cnt, "iteration visits exactly size() entries");
    for (unsigned i = 0; i < MAXSZ; i++) if (i < cnt) VASSERT(ad[i] == (i64)(data0 + i * bl), "iteration entry i at data start + i x wire blockLength (zero-length blocks included)");
  } else {
    VASSUME(which == 7 || which == 8);
    IN(u64, c); VASSUME(c <= %(nmax)s);
    if (which == 7) CALL(resize_%(P)s(buf, N, c)); else { c = 0; CALL(clear_%(P)s(buf, N)); }
    VASSERT(!verif_aborted, "no handler");
    VASSERT(ref_rd(buf + gpos + SB, SN, 0) == c, "resize/clear set numInGroup");
    for (unsigned i = 0; i < N; i++) if (!(i >= gpos + SB && i < gpos + SB + SN)) VASSERT(buf[i] == old[i], "resize/clear change only the numInGroup bytes");
  }
""" % {"P": Pn, "depth": depth, "nmax": "0x%xULL" % ((1 << (8 * U[n])) - 2)}
    return hgen.harness([u], body)


def wide_harness(u, n, b):
    """entry addresses for header values over the WHOLE type range (schema extension can make the wire blockLength arbitrarily large): only addresses are formed, nothing is dereferenced"""
    Pn = "%s_%s" % (n, b)
    body = r"""
  enum { N = 48, HDR = 8, SB = %(sb)d, SN = %(sn)d };
  IN_BYTES(buf, N);
  u64 rbl = ref_rd(buf + 0, 2, 0); VASSUME(rbl <= 2);
  u64 gpos = HDR + rbl;
  u64 bl = ref_rd(buf + gpos, SB, 0), cnt = ref_rd(buf + gpos + SB, SN, 0);
  VASSUME((unsigned __int128)bl * cnt < ((unsigned __int128)1 << 48)); VASSUME(bl < ((u64)1 << 47));
  u64 data0 = gpos + SB + SN;
  IN(u64, i); VASSUME(i < cnt && i < 4);
  i64 a = -1;
  CALL(a = at_%(P)s(buf, N, i));    /* one library call per query: each one carries a 64-bit symbolic multiplication */
  VASSERT(!verif_aborted, "no handler");
  VASSERT(a == (i64)(data0 + i * bl), "entry i (operator[] = *(begin()+i)) starts at data start + i x wire blockLength for every blockLength of the type");
""" % {"sb": U[b], "sn": U[n], "P": Pn}
    return hgen.harness([u], body)


def wide_index_harness(u, n, b, excl_f12b=True, twin=False):
    """indices, distances and orderings for group sizes over the WHOLE numInGroup range (no entry is dereferenced: only addresses/indices are formed)"""
    Pn = "%s_%s" % (n, b)
    body = r"""
  enum { N = 48, HDR = 8, SB = %(sb)d, SN = %(sn)d };
  IN_BYTES(buf, N);
  u64 rbl = ref_rd(buf + 0, 2, 0); VASSUME(rbl <= 2);
  u64 gpos = HDR + rbl;
  u64 bl = ref_rd(buf + gpos, SB, 0), cnt = ref_rd(buf + gpos + SB, SN, 0);
  VASSUME(bl <= 65535); VASSUME(cnt <= 0xffffffffULL);      /* stride below 2^16, entry count anywhere in the numInGroup type up to 2^32-1: byte offsets stay below 2^48 (cbmc's pointer encoding with 10 object bits holds 53-bit offsets) */
  u64 data0 = gpos + SB + SN;
  IN(u64, i); IN(u64, j); VASSUME(i <= cnt && j <= cnt);
  SELECT(which);
  u64 smax = %(smax)s;   /* maximum of difference_type = make_signed<numInGroup type> */
  if (which == 2 || which == 3) { %(f12b)s }
  if (which == 0) {
    VASSUME(i < cnt); i64 a = -1; CALL(a = at_%(P)s(buf, N, i));
    VASSERT(!verif_aborted, "no handler"); VASSERT(a == (i64)(data0 + i * bl), "entry i starts at data start + i x wire blockLength for EVERY index below numInGroup");
  } else if (which == 1) {
    VASSUME(cnt >= 1); i64 a = -1; CALL(a = back_%(P)s(buf, N));
    VASSERT(!verif_aborted, "no handler"); VASSERT(a == (i64)(data0 + (cnt - 1) * bl), "back() is entry size()-1 for every group size of the type");
  } else if (which == 2) {
    u64 s = 0; i64 dist = -1; u32 fl = 9; CALL(s = size_%(P)s(buf, N)); CALL(fl = beginend_%(P)s(buf, N, &dist));
    VASSERT(!verif_aborted, "no handler"); VASSERT(s == cnt && dist == (i64)cnt && (fl & 1) && ((fl >> 1) & 1) == (cnt == 0), "size()==numInGroup, end()-begin()==size(), begin()+size()==end() for every group size of the type");
  } else if (which == 3) {
    i64 dist = 0; u32 c = 0; CALL(c = cmp_%(P)s(buf, N, (i64)i, (i64)j, &dist));
    VASSERT(!verif_aborted, "no handler"); VASSERT(dist == (i64)i - (i64)j, "distance of begin()+i and begin()+j is i-j for every pair of indices");
    VASSERT(c == (u32)((i == j) | ((i != j) << 1) | ((i < j) << 2) | ((i <= j) << 3) | ((i > j) << 4) | ((i >= j) << 5)), "all six comparisons agree with the index comparison");
  } else if (which == 4) {
    /* ordering of iterators that are far apart (begin()+k1 by ++, end()-k2 by --): decided for EVERY group size of the type, also beyond the range of difference_type */
    IN(u32, k1); IN(u32, k2); VASSUME(k1 <= 2 && k2 <= 2 && k1 <= cnt && k2 <= cnt);
    VASSUME(data0 + (u64)k1 * bl <= N);   /* checked builds: operator++ requires the entry it leaves to lie inside the (48-byte) buffer; operator-- has no such precondition */
    u64 ia = k1, ib = cnt - k2; i64 ab = -1; u32 c = 0; CALL(c = cmpbe_%(P)s(buf, N, k1, k2, &ab));
    VASSERT(!verif_aborted, "no handler");
    VASSERT(c == (u32)((ia == ib) | ((ia != ib) << 1) | ((ia < ib) << 2) | ((ia <= ib) << 3) | ((ia > ib) << 4) | ((ia >= ib) << 5) | ((ib < ia) << 6) | ((ib <= ia) << 7) | ((ib > ia) << 8) | ((ib >= ia) << 9)),
            "orderings of begin()+k1 and end()-k2 (reached by ++ / --) match the index comparison for every group size of the numInGroup type");
  } else VASSUME(0);
""" % {"sb": U[b], "sn": U[n], "P": Pn, "smax": "0x%xULL" % ((1 << (8 * U[n] - 1)) - 1),
       "f12b": ("VASSUME(cnt > smax);   /* twin of open known finding F12b */" if twin else
                ("VASSUME(cnt <= smax);   /* open known finding F12b: excluded input class (numInGroup beyond the range of difference_type), re-derived by its twin */" if excl_f12b else ""))}
    return hgen.harness([u], body)


def nested_harness(u, n, maxsz, b=None, wide=False):
    """n: numInGroup type, b: blockLength type (None: same as n, message n_<n>); wide: the wire blockLength is either small or just above the maximum of the numInGroup type (uint8: 259)"""
    b = b or n
    P_ = n if b == n else "%s_%s" % (n, b)
    body = r"""
  enum { N = %(N)d, HDR = 8, SB = %(sb)d, S = %(s)d, MAXSZ = %(maxsz)d };
  IN_BYTES(buf, N); unsigned char old[N]; verif_copy(old, buf, N);
  u64 rbl = ref_rd(buf + 0, 2, 0); VASSUME(rbl <= 1);
  u64 gpos = HDR + rbl;
  u64 bl = ref_rd(buf + gpos, SB, 0), cnt = ref_rd(buf + gpos + SB, S, 0);
  %(blassume)s VASSUME(cnt <= MAXSZ);
  u64 pos = gpos + SB + S, eoff[MAXSZ], esz[MAXSZ];
  for (unsigned i = 0; i < MAXSZ; i++) { eoff[i] = 0; esz[i] = 0; if (i < cnt) { eoff[i] = pos; u64 dl = buf[pos + bl]; VASSUME(dl <= 2); esz[i] = bl + 1 + dl; pos += esz[i]; } }
  SELECT(which);
  if (which == 0) {
    i64 ad[MAXSZ + 1]; u64 sz[MAXSZ + 1]; u32 k = 0, fl = 9;
    for (unsigned i = 0; i < MAXSZ + 1; i++) { ad[i] = -1; sz[i] = 0; }
    CALL(k = nwalk_%(n)s(buf, N, ad, sz, MAXSZ + 1, &fl));
    VASSERT(!verif_aborted, "no handler");
    VASSERT(k == cnt && fl == 0, "forward iteration visits exactly size() entries; ++ and ++(int) advance; final iterator == end()");
    for (unsigned i = 0; i < MAXSZ; i++) if (i < cnt) VASSERT(ad[i] == (i64)eoff[i] && sz[i] == esz[i], "nested entry i starts where entry i-1 ends; size_bytes(entry) is its wire size");
  } else if (which == 1) {
    u64 s = 99, sb = 0; _Bool em = 0; i64 fr = -1;
    CALL(s = nsize_%(n)s(buf, N)); CALL(em = nempty_%(n)s(buf, N)); CALL(sb = nsize_bytes_%(n)s(buf, N));
    if (cnt > 0) CALL(fr = nfront_%(n)s(buf, N));
    VASSERT(!verif_aborted, "no handler");
    VASSERT(s == cnt && em == (cnt == 0) && sb == pos - gpos, "size/empty/size_bytes of a nested group");
    if (cnt > 0) VASSERT(fr == (i64)eoff[0], "front() is the first entry");
  } else if (which == 4) {
    i64 ad[MAXSZ + 1], cend = -1; u32 k = 0;
    for (unsigned i = 0; i < MAXSZ + 1; i++) ad[i] = -1;
    CALL(k = ncwalk_%(n)s(buf, N, ad, MAXSZ + 1, &cend));
    VASSERT(!verif_aborted, "no handler");
    VASSERT(k == cnt, "cursor_range over a nested group yields exactly size() entries");
    for (unsigned i = 0; i < MAXSZ; i++) if (i < cnt) VASSERT(ad[i] == (i64)eoff[i], "cursor-based entry i starts where entry i-1 ends (wire blockLength + its data)");
    VASSERT(cend == (i64)pos, "after the cursor walk the cursor is at the end of the group");
  } else {
    VASSUME(which == 2 || which == 3);
    IN(u64, c); VASSUME(c <= %(nmax)s);
    if (which == 2) CALL(nresize_%(n)s(buf, N, c)); else { c = 0; CALL(nclear_%(n)s(buf, N)); }
    VASSERT(!verif_aborted, "no handler");
    VASSERT(ref_rd(buf + gpos + SB, S, 0) == c, "resize/clear set numInGroup");
    for (unsigned i = 0; i < N; i++) if (!(i >= gpos + SB && i < gpos + SB + S)) VASSERT(buf[i] == old[i], "resize/clear change only numInGroup");
  }
""" % {"s": U[n], "sb": U[b], "n": P_, "maxsz": maxsz, "nmax": "0x%xULL" % ((1 << (8 * U[n])) - 2),
       "N": (8 + 1 + 16 + maxsz * (259 + 3) + 2) if wide else 64,
       "blassume": "VASSUME(bl == 2 || bl == 259);   /* 259 = just above the uint8 range: a wire blockLength wider than the numInGroup type */" if wide else "VASSUME(bl >= 1 && bl <= 3);"}
    return hgen.harness([u], body)


def nested_many_harness(u):
    """nested group with a uint8 numInGroup holding ANY number of entries 0..255 (beyond the range of its signed difference_type): minimal entries (wire blockLength 0, empty <data>)"""
    body = r"""
  enum { HDR = 8, N = HDR + 2 + 255 + 2 };
  unsigned char buf[N]; for (unsigned i = 0; i < N; i++) buf[i] = 0;      /* root blockLength 0; group header at 8: {blockLength u8 = 0, numInGroup u8 = cnt}; every entry = one zero length byte */
  IN(u8, cnt); buf[HDR + 1] = cnt;
  SELECT(which);
  if (which == 0) {
    u64 s = 999, sb = 0; CALL(s = nsize_uint8(buf, N)); CALL(sb = nsize_bytes_uint8(buf, N));
    VASSERT(!verif_aborted, "no handler"); VASSERT(s == cnt && sb == 2 + (u64)cnt, "size() and size_bytes() of a nested group for EVERY entry count of a uint8 numInGroup");
  } else if (which == 1) {
    i64 ad[2] = {-1, -1}; u64 sz[2] = {0, 0}; u32 k = 0, fl = 9; CALL(k = nwalk_uint8(buf, N, ad, sz, 2, &fl));
    VASSERT(!verif_aborted, "no handler"); VASSERT(k == cnt && fl == 0, "forward iteration visits exactly size() entries and ends at end() for every entry count");
    if (cnt >= 2) VASSERT(ad[0] == HDR + 2 && ad[1] == HDR + 3 && sz[0] == 1, "entry i starts where entry i-1 ends");
  } else if (which == 2) {
    i64 ad[2] = {-1, -1}, cend = -1; u32 k = 0; CALL(k = ncwalk_uint8(buf, N, ad, 2, &cend));
    VASSERT(!verif_aborted, "no handler"); VASSERT(k == cnt && cend == (i64)(HDR + 2 + (u64)cnt), "cursor walk over every entry count: size() entries, cursor ends at the end of the group");
  } else VASSUME(0);
"""
    return hgen.harness([u], body)


WIDE_QUICK = {("uint8", "uint8"), ("uint16", "uint16"), ("uint32", "uint32"), ("uint64", "uint64"), ("uint8", "uint32"), ("uint16", "uint64"), ("uint64", "uint8")}   # quick tier: every numInGroup type, every blockLength type


def build(ctx):
    hs = []
    maxsz, maxbl, depth = ctx.q(3, 4), ctx.q(4, 5), ctx.q(3, 4)
    ctx.assumptions = ["group size <= %d, wire blockLength <= %d (0 included), root blockLength extension <= 2, operands |n| <= size, iterator kept inside [begin,end] (documented validity)" % (maxsz, maxbl),
                       "symbolic operation sequences of depth <= %d over {++,--,+=,-=,+,-,n+it,it++,it--}" % depth,
                       "16 (numInGroup, blockLength) pairs as generated by sbeppc for schemas/vs_dims.xml; nested groups for the 4 diagonal pairs"]
    sch, inc = hgen.gen_headers(ctx, "vs_dims.xml")
    pairs = [(n, b) for n in U for b in U]
    diag = [(n, n) for n in U]
    # thorough: all 16 pairs under c++17/c++20 checked and c++11 unchecked, the 4 diagonal pairs under c++14 (a full 4 standards x 2 builds x 16 pairs product took 92 min and added no new IR shapes)
    configs = [("17", "checked", pairs)] if ctx.quick else [("17", "checked", pairs), ("20", "checked", pairs), ("11", "unchecked", pairs), ("14", "checked", diag)]
    for (std, mode, cpairs) in configs:
        if True:
            for j in range(0, len(cpairs), 4):
                chunk = cpairs[j:j + 4]
                u = ctx.lower("c12f", cpp(chunk, []), std=std, mode=mode, incs=[inc])
                for (n, b) in chunk:
                    for arm in range(9):
                        hs.append(P.Harness("flat_%s_%s_arm%d_%s_cxx%s" % (n, b, arm, mode, std), flat_harness(u, n, b, maxsz, maxbl, depth), [u], unwind=max(maxsz, depth) + 2,
                                            backends=["minisat", "z3"], cap=ctx.q(600, 1200), defines=["VERIF_WHICH=%d" % arm],
                                            desc="flat group numInGroup=%s blockLength=%s, arm %d of {0 iterator op sequences, 1 comparisons+distance, 2 it[n], 3 (it+n)-n, 4 begin/end/size/size_bytes, 5 operator[]/front/back, 6 range-for, 7 resize frame, 8 clear frame}" % (n, b, arm),
                                            bounds={"size": "0..%d" % maxsz, "blockLength": "0..%d" % maxbl, "depth": depth, "std": "c++" + std, "build": mode}))
                for (n, b) in chunk:
                    hs.append(P.Harness("flat_%s_%s_wide_%s_cxx%s" % (n, b, mode, std), wide_harness(u, n, b), [u], unwind=4, backends=["z3", "minisat", "kissat"], cap=ctx.q(600, 1200),
                                        extra_flags=["--no-standard-checks"],
                                        desc="flat group numInGroup=%s blockLength=%s: operator[] / begin()[i] / back() addresses with header values over the whole type range" % (n, b),
                                        bounds={"blockLength": "full %s range (< 2^47)" % b, "numInGroup": "full %s range" % n, "i": "< 4", "std": "c++" + std, "build": mode}))
                f12b = "F12b" in ctx.open
                for (n, b) in chunk:
                    if f12b and (n, b, mode, std) == ("uint8", "uint8", "checked", "17"):
                        hs.append(P.Harness("flat_uint8_uint8_wideidx2_twin_F12b_cxx17", wide_index_harness(u, n, b, twin=True), [u], unwind=4, backends=["z3", "minisat"], cap=ctx.q(600, 1200),
                                            extra_flags=["--no-standard-checks"], defines=["VERIF_WHICH=2"], expect="refuted", witness=False, meta={"finding": "F12b"},
                                            desc="twin of known finding F12b: end()-begin() for numInGroup > 127 (uint8)"))
                    if ctx.quick and (n, b) not in WIDE_QUICK: continue
                    if not ctx.quick and mode != "checked": continue
                    for arm in range(5):
                        hs.append(P.Harness("flat_%s_%s_wideidx%d_%s_cxx%s" % (n, b, arm, mode, std), wide_index_harness(u, n, b, excl_f12b=f12b), [u], unwind=5, backends=["z3", "minisat", "kissat"], cap=ctx.q(600, 1200),
                                            extra_flags=["--no-standard-checks"], defines=["VERIF_WHICH=%d" % arm],
                                            desc="flat group numInGroup=%s blockLength=%s, arm %d of {0 operator[](i), 1 back(), 2 size/begin/end, 3 distance+comparisons of (i,j), 4 orderings of stepped iterators begin()+k1 / end()-k2 for EVERY group size} with numInGroup and the indices over the whole type range" % (n, b, arm),
                                            bounds={"blockLength": "0..65535 (of %s)" % b, "numInGroup": "full %s range (<= 2^32-1)" % n, "i,j,k": "any index inside the group", "std": "c++" + std, "build": mode}))
            mixed = [(n_, b_) for n_ in U for b_ in U if n_ != b_]
            if ctx.quick: mixed = [("uint8", "uint16"), ("uint16", "uint8"), ("uint8", "uint64"), ("uint32", "uint16")]
            if cpairs is not pairs: mixed = []
            npairs = [(n_, n_) for n_ in U] + mixed
            un = ctx.lower("c12n", cpp([], [n_ if n_ == b_ else "%s_%s" % (n_, b_) for (n_, b_) in npairs]), std=std, mode=mode, incs=[inc])
            for arm in range(2):     # the cursor walk (arm 2 of the harness) over 255 entries exhausts the 12 GB memory cap: left out, stated
                hs.append(P.Harness("nested_uint8_many_arm%d_%s_cxx%s" % (arm, mode, std), nested_many_harness(un), [un], unwind=260, backends=(["kissat", "minisat"] if arm == 0 else ["minisat", "kissat"]), cap=ctx.q(600, 1200),   # measured: minisat does not decide arm 0 of the checked build in 600 s, kissat needs 95 s
                                    defines=["VERIF_WHICH=%d" % arm], meta={"big_unwind": 300},
                                    desc="nested group with uint8 numInGroup: arm %d of {0 size/size_bytes, 1 forward iteration} for EVERY entry count 0..255 (minimal entries)" % arm,
                                    bounds={"numInGroup": "0..255 (symbolic)", "entries": "wire blockLength 0, empty <data> (1 byte each)", "std": "c++" + std, "build": mode}))
            for (n, b) in npairs:
                for arm in range(5):
                    hs.append(P.Harness("nested_%s_%s_arm%d_%s_cxx%s" % (n, b, arm, mode, std), nested_harness(un, n, maxsz, b), [un], unwind=maxsz + 3, backends=["minisat", "z3"], cap=ctx.q(600, 1200),
                                        defines=["VERIF_WHICH=%d" % arm],
                                        desc="nested group (numInGroup %s / blockLength %s, entries with a <data> member), arm %d of {0 forward iteration addresses, 1 size/empty/front/size_bytes, 2 resize frame, 3 clear frame, 4 cursor_range walk addresses + final cursor}" % (n, b, arm),
                                        bounds={"size": "0..%d" % maxsz, "blockLength": "1..3", "data_len": "0..2", "std": "c++" + std, "build": mode}))
            # wire blockLength beyond the range of a narrower numInGroup type (uint8 numInGroup with a wider blockLength; uint16/uint16 as control)
            if std == "17" and mode == "checked":
                for (n, b) in [("uint8", "uint16"), ("uint8", "uint64"), ("uint16", "uint16")] if ctx.quick else [("uint8", "uint16"), ("uint8", "uint32"), ("uint8", "uint64"), ("uint16", "uint16"), ("uint16", "uint32")]:
                    for arm in (0, 1, 4):
                        hs.append(P.Harness("nested_%s_%s_wide_arm%d_%s_cxx%s" % (n, b, arm, mode, std), nested_harness(un, n, 2, b, wide=True), [un], unwind=5, backends=["minisat", "kissat"], cap=ctx.q(600, 1200),
                                            defines=["VERIF_WHICH=%d" % arm], extra_flags=["--no-standard-checks"], meta={"big_unwind": 700},
                                            desc="nested group (numInGroup %s / blockLength %s): wire blockLength 2 or 259 (beyond the uint8 range), arm %d of {0 forward iteration, 1 size_bytes/front, 4 cursor_range walk}" % (n, b, arm),
                                            bounds={"size": "0..2", "blockLength": "{2, 259}", "data_len": "0..2", "std": "c++" + std, "build": mode}))
    return hs
