"""C16 -- optional/required scalars: null, range, ordering and SBE defaults."""
import os, shutil
import hgen
from hgen import P, M

PR = M.PRIM
CT = {"char": "char", "int8": "int8_t", "uint8": "uint8_t", "int16": "int16_t", "uint16": "uint16_t", "int32": "int32_t", "uint32": "uint32_t",
      "int64": "int64_t", "uint64": "uint64_t", "float": "float", "double": "double"}
HCT = {"char": "signed char", "int8": "i8", "uint8": "u8", "int16": "i16", "uint16": "u16", "int32": "i32", "uint32": "u32", "int64": "i64", "uint64": "u64",
       "float": "float", "double": "double"}


def c_const(p, v):
    """XML literal / SBE default -> C expression of the primitive's C type"""
    if p in ("float", "double"):
        f = p == "float"
        if v == "NaN": return None
        if v in ("INF", "+INF"): return "__builtin_inff()" if f else "__builtin_inf()"
        if v == "-INF": return "(-__builtin_inff())" if f else "(-__builtin_inf())"
        if v == "MINPOS": return "1.17549435082228750796873653722224568e-38F" if f else "2.22507385850720138309023271733240406e-308"
        if v == "MAX": return "3.40282346638528859811704183484516925e+38F" if f else "1.79769313486231570814527423731704357e+308"
        if v == "-MAX": return "(-3.40282346638528859811704183484516925e+38F)" if f else "(-1.79769313486231570814527423731704357e+308)"
        return "(%s%s)" % (v if ("." in v or "e" in v) else v + ".0", "F" if f else "")
    v = int(v)
    if v == -(1 << 63): return "(-9223372036854775807LL-1)"
    return "((%s)%d%s)" % (HCT[p], v, "ULL" if v > (1 << 62) else "LL")


def type_list(sch):
    """(id, c++ type, prim, optional, min, max, null) ; null None for required"""
    out = []
    for p in CT:
        d = M.sbe_defaults(p)
        out.append(("b_%s" % p, "sbepp::%s_t" % p, p, False, d["min"], d["max"], None))
        out.append(("bo_%s" % p, "sbepp::%s_opt_t" % p, p, True, d["min"], d["max"], d["null"]))
    for t in sch.types.values():
        if t.kind != "type" or t.is_array or t.presence == "constant": continue
        d = M.sbe_defaults(t.prim)
        opt = t.presence == "optional"
        out.append((t.name, "%s::types::%s" % (sch.ns, t.name), t.prim, opt,
                    t.minv if t.minv is not None else d["min"], t.maxv if t.maxv is not None else d["max"],
                    (t.nullv if t.nullv is not None else d["null"]) if opt else None))
    return out


BITS = r'''
template<class V> static inline uint64_t tob(V v){ typename std::conditional<sizeof(V)==1, uint8_t, typename std::conditional<sizeof(V)==2, uint16_t, typename std::conditional<sizeof(V)==4, uint32_t, uint64_t>::type>::type>::type u; std::memcpy(&u, &v, sizeof(V)); return u; }
template<class V> static inline V fromb(uint64_t b){ V v; std::memcpy(&v, &b, sizeof(V)); return v; }
'''


def wrappers(types, ordering_fp_opt):
    s = ""
    for (tid, T, p, opt, mn, mx, nl) in types:
        vt = CT[p]
        fp = p in ("float", "double")
        if ordering_fp_opt != (fp and opt):
            continue
        for op, sym in (("lt", "<"), ("le", "<="), ("gt", ">"), ("ge", ">=")):
            s += "W bool %s_%s(uint64_t a, uint64_t b){ return %s{fromb<%s>(a)} %s %s{fromb<%s>(b)}; }\n" % (op, tid, T, vt, sym, T, vt)
    if ordering_fp_opt: return s
    for (tid, T, p, opt, mn, mx, nl) in types:
        vt = CT[p]
        s += "W bool eq_%s(uint64_t a, uint64_t b){ return %s{fromb<%s>(a)} == %s{fromb<%s>(b)}; }\n" % (tid, T, vt, T, vt)
        s += "W bool ne_%s(uint64_t a, uint64_t b){ return %s{fromb<%s>(a)} != %s{fromb<%s>(b)}; }\n" % (tid, T, vt, T, vt)
        s += "W bool in_range_%s(uint64_t a){ return %s{fromb<%s>(a)}.in_range(); }\n" % (tid, T, vt)
        s += "W uint64_t value_%s(uint64_t a){ return tob(%s{fromb<%s>(a)}.value()); }\n" % (tid, T, vt)
        s += "W uint64_t deref_%s(uint64_t a){ %s x{}; *x = fromb<%s>(a); const %s& c = x; return tob(*c); }\n" % (tid, T, vt, T)
        s += "W uint64_t min_%s(){ return tob(%s::min_value()); }\nW uint64_t max_%s(){ return tob(%s::max_value()); }\n" % (tid, T, tid, T)
        if opt:
            s += "W bool has_value_%s(uint64_t a){ return %s{fromb<%s>(a)}.has_value(); }\n" % (tid, T, vt)
            s += "W bool boolconv_%s(uint64_t a){ return static_cast<bool>(%s{fromb<%s>(a)}); }\n" % (tid, T, vt)
            s += "W uint64_t value_or_%s(uint64_t a, uint64_t d){ return tob(%s{fromb<%s>(a)}.value_or(fromb<%s>(d))); }\n" % (tid, T, vt, vt)
            s += "W uint64_t null_%s(){ return tob(%s::null_value()); }\n" % (tid, T)
            s += "W bool default_has_value_%s(){ return %s{}.has_value(); }\n" % (tid, T)
            s += "W bool nullopt_has_value_%s(){ return %s{sbepp::nullopt}.has_value(); }\n" % (tid, T)
            s += "W bool default_eq_nullopt_%s(){ return %s{} == %s{sbepp::nullopt}; }\n" % (tid, T, T)
            s += "W uint64_t default_value_%s(){ return tob(%s{}.value()); }\n" % (tid, T)
        else:
            s += "W uint64_t default_value_%s(){ return tob(%s{}.value()); }\n" % (tid, T)
    return s


def cpp(sch, types, ordering_fp_opt=False):
    return hgen.W_PRELUDE + "#include <%s/%s.hpp>\n" % (sch.ns, sch.ns) + BITS + wrappers(types, ordering_fp_opt)


def harness_for(units, t, have_fp_ordering):
    (tid, T, p, opt, mn, mx, nl) = t
    size = PR[p][0]
    fp = p in ("float", "double")
    ht = HCT[p]
    mask = "0x%xULL" % ((1 << (8 * size)) - 1)
    if fp:
        dec = "u32_as_float((u32)%s)" if p == "float" else "u64_as_double(%s)"
        enc = "(u64)float_as_u32(%s)" if p == "float" else "double_as_u64(%s)"
    else:
        dec = "((%s)(%%s))" % ht
        enc = "(((u64)(%s)) & " + mask + ")"
    cmin, cmax = c_const(p, str(mn)), c_const(p, str(mx))
    cnull = c_const(p, str(nl)) if nl is not None else None
    null_is_nan = opt and fp and str(nl) == "NaN"
    b = "  IN(u64, ab); IN(u64, bb); IN(u64, db);\n  ab &= %s; bb &= %s; db &= %s;\n" % (mask, mask, mask)
    b += "  %s a = %s, bv = %s, d = %s;\n" % (ht, dec % "ab", dec % "bb", dec % "db")
    b += "  %s mn = %s, mx = %s;\n" % (ht, cmin, cmax)
    if opt:
        if null_is_nan:
            b += "  _Bool na = (a != a), nb = (bv != bv);\n"
        else:
            b += "  %s nl = %s;\n  _Bool na = (a == nl), nb = (bv == nl);\n" % (ht, cnull)
    else:
        b += "  _Bool na = 0, nb = 0;\n"
    b += "  _Bool r_eq = (na || nb) ? (na && nb) : (a == bv);\n"
    b += "  _Bool r_lt = nb ? 0 : (na ? 1 : (a < bv));\n"
    b += "  _Bool r_le = na ? 1 : (nb ? 0 : (a <= bv));\n"
    b += "  _Bool r_gt = na ? 0 : (nb ? 1 : (a > bv));\n"
    b += "  _Bool r_ge = nb ? 1 : (na ? 0 : (a >= bv));\n"
    b += "  _Bool x = 0; u64 y = 0;\n"
    def chk(call, ref, msg, val=False):
        v = "y" if val else "x"
        return '  CALL(%s = %s); VASSERT(%s == (%s), "%s");\n' % (v, call, v, ref, msg)
    b += chk("eq_%s(ab, bb)" % tid, "r_eq", "operator==: null equals only null, otherwise underlying values compare")
    b += chk("ne_%s(ab, bb)" % tid, "!r_eq", "operator!= is the negation of operator==")
    if have_fp_ordering or not (fp and opt):
        b += chk("lt_%s(ab, bb)" % tid, "r_lt", "operator<: null orders before every value")
        b += chk("le_%s(ab, bb)" % tid, "r_le", "operator<=")
        b += chk("gt_%s(ab, bb)" % tid, "r_gt", "operator>")
        b += chk("ge_%s(ab, bb)" % tid, "r_ge", "operator>=")
    b += chk("in_range_%s(ab)" % tid, "(mn <= a) && (a <= mx)", "in_range is min <= value <= max on the underlying value")
    b += chk("value_%s(ab)" % tid, "ab", "value() returns the stored underlying value bit-exactly", True)
    b += chk("deref_%s(ab)" % tid, "ab", "operator* reads/writes the stored underlying value bit-exactly", True)
    b += chk("min_%s()" % tid, enc % "mn", "min_value() == %s" % mn, True)
    b += chk("max_%s()" % tid, enc % "mx", "max_value() == %s" % mx, True)
    if opt:
        b += chk("has_value_%s(ab)" % tid, "!na", "has_value() is false exactly for the null value")
        b += chk("boolconv_%s(ab)" % tid, "!na", "bool conversion == has_value()")
        b += chk("value_or_%s(ab, db)" % tid, "na ? db : ab", "value_or returns the default exactly when null", True)
        if null_is_nan:
            b += '  CALL(y = null_%s()); { %s nn = %s; VASSERT(nn != nn, "null_value() is NaN"); }\n' % (tid, ht, dec % "y")
        else:
            b += chk("null_%s()" % tid, enc % "nl", "null_value() == %s" % nl, True)
        b += chk("default_has_value_%s()" % tid, "0", "a default-constructed optional is null")
        b += chk("nullopt_has_value_%s()" % tid, "0", "a nullopt-constructed optional is null")
        b += chk("default_eq_nullopt_%s()" % tid, "1", "null == null")
    else:
        b += chk("default_value_%s()" % tid, "0", "a default-constructed required value is zero", True)
    return hgen.harness(units, b, pre="#include <float.h>\n")


def build(ctx):
    hs = []
    ctx.assumptions = ["all pairs of underlying values (every bit pattern incl. all NaNs/infinities) are symbolic; types enumerated: 22 built-ins + schemas/vs_opt.xml"]
    sch, inc = hgen.gen_headers(ctx, "vs_opt.xml")
    types = type_list(sch)
    for std in hgen.stds(ctx):
        u = ctx.try_lower("c16", cpp(sch, types), std=std, mode="unchecked", incs=[inc])
        if "error" in u:
            # a header that does not compile (e.g. a default literal that does not fit) is a violation of the defaults clause
            d = os.path.join(hgen.P.VERIF, "replays", "C16", "lowering_cxx%s" % std); os.makedirs(d, exist_ok=True)
            open(os.path.join(d, "compiler_output.txt"), "w").write(" ".join(u.get("flags", [])) + "\n" + u.get("stderr", u["error"]))
            shutil.copy(u["cpp"], d)
            open(os.path.join(d, "replay.sh"), "w").write("#!/sh\ncat %s/compiler_output.txt; exit 1\n" % d)
            ctx.pre_violations.append(("generated optional/required types do not compile under c++%s (decided by the compiler while lowering, not a solver verdict): %s" % (std, u.get("stderr", "")[:600]), d))
            ctx.observations.append({"std": std, "decided_by": "pipeline precondition (not a solver verdict)", "what": "types TU does not compile"})
            continue
        uo = ctx.try_lower("c16fo", cpp(sch, types, True), std=std, mode="unchecked", incs=[inc])
        have = "error" not in uo
        if not have:
            d = os.path.join(hgen.P.VERIF, "replays", "C16", "fp_optional_ordering_cxx%s" % std); os.makedirs(d, exist_ok=True)
            open(os.path.join(d, "compiler_output.txt"), "w").write(" ".join(uo.get("flags", [])) + "\n" + uo.get("stderr", uo["error"]))
            shutil.copy(uo["cpp"], d)
            open(os.path.join(d, "replay.sh"), "w").write("#!/bin/sh\ncat %s/compiler_output.txt; exit 1\n" % d)
            ctx.pre_violations.append(("ordering operators of float/double optionals do not compile under c++%s (compiler diagnostic while lowering; not a solver verdict)" % std, d))
            ctx.observations.append({"std": std, "decided_by": "pipeline precondition (not a solver verdict)", "what": "FP optional ordering TU does not compile"})
        for t in types:
            units = [u] + ([uo] if have and t[3] and t[2] in ("float", "double") else [])
            hs.append(P.Harness("%s_cxx%s" % (t[0], std), harness_for(units, t, have), units, unwind=2,
                                desc="%s (%s, %s): ==,!=,<,<=,>,>=, in_range, value, has_value/bool/value_or, default/nullopt construction, min/max/null constants vs. reference definition"
                                     % (t[1], t[2], "optional" if t[3] else "required"),
                                bounds={"values": "all pairs of bit patterns of %s" % t[2], "std": "c++" + std, "min": str(t[4]), "max": str(t[5]), "null": str(t[6])}))
    return hs
