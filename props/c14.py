"""C14 -- fixed-length arrays: assignment, padding and string length are exact."""
import hgen
from hgen import P


def cpp(ns):
    s = hgen.W_PRELUDE + "#include <sbepp/sbepp.hpp>\n#include <initializer_list>\n"
    s += "struct vspan { const char* b; const char* e; const char* begin() const { return b; } const char* end() const { return e; } };\n"
    s += ("struct sp_it { using iterator_category = std::input_iterator_tag; using value_type = char; using difference_type = std::ptrdiff_t; using pointer = const char*; using reference = char;\n"
          "  const char** cur; const char* endp; struct proxy { char v; char operator*() const { return v; } };\n"
          "  char operator*() const { return **cur; } sp_it& operator++(){ ++*cur; return *this; } proxy operator++(int){ proxy t{**cur}; ++*cur; return t; }\n"
          "  bool at_end() const { return !cur || *cur == endp; } bool operator==(const sp_it& o) const { return at_end() == o.at_end(); } bool operator!=(const sp_it& o) const { return at_end() != o.at_end(); } };\n")
    s += "static inline sbepp::eos_null em(uint32_t m){ return m == 0 ? sbepp::eos_null::none : (m == 1 ? sbepp::eos_null::single : sbepp::eos_null::all); }\n"
    for n in ns:
        A = "A%d" % n
        s += "using %s = sbepp::detail::static_array_ref<char, char, %d, void>;\n" % (A, n)
        s += "W int64_t as_cstr_%d(char* p, size_t cap, const char* s, uint32_t m){ %s a{p, cap}; auto it = a.assign_string(s, em(m)); return it - a.begin(); }\n" % (n, A)
        s += "W int64_t as_cstr_dflt_%d(char* p, size_t cap, const char* s){ %s a{p, cap}; auto it = a.assign_string(s); return it - a.begin(); }\n" % (n, A)
        s += "W int64_t as_range_%d(char* p, size_t cap, const char* s, size_t len, uint32_t m){ %s a{p, cap}; vspan r{s, s + len}; auto it = a.assign_string(r, em(m)); return it - a.begin(); }\n" % (n, A)
        s += "W int64_t ar_range_%d(char* p, size_t cap, const char* s, size_t len){ %s a{p, cap}; vspan r{s, s + len}; auto it = a.assign_range(r); return it - a.begin(); }\n" % (n, A)
        s += "W void fill_%d(char* p, size_t cap, char v){ %s a{p, cap}; a.fill(v); }\n" % (n, A)
        s += "W int64_t assign_cv_%d(char* p, size_t cap, size_t count, char v){ %s a{p, cap}; auto it = a.assign(count, v); return it - a.begin(); }\n" % (n, A)
        s += "W int64_t assign_it_%d(char* p, size_t cap, const char* s, size_t len){ %s a{p, cap}; auto it = a.assign(s, s + len); return it - a.begin(); }\n" % (n, A)
        s += "W int64_t assign_sp_%d(char* p, size_t cap, const char* s, size_t len){ %s a{p, cap}; const char* cur = s; auto it = a.assign(sp_it{&cur, s + len}, sp_it{nullptr, nullptr}); return it - a.begin(); }\n" % (n, A)
        for k in range(n + 1):
            il = ", ".join("s[%d]" % i for i in range(k))
            s += "W int64_t assign_il_%d_%d(char* p, size_t cap, const char* s){ %s a{p, cap}; auto it = a.assign(std::initializer_list<char>{%s}); return it - a.begin(); }\n" % (n, k, A, il)
        s += "W uint64_t strlen_%d(char* p, size_t cap){ %s a{p, cap}; return a.strlen(); }\n" % (n, A)
        s += "W uint64_t strlen_r_%d(char* p, size_t cap){ %s a{p, cap}; return a.strlen_r(); }\n" % (n, A)
        s += "W uint64_t size_%d(char* p, size_t cap){ %s a{p, cap}; return a.size() + (a.end() - a.begin()) * 16; }\n" % (n, A)
    return s


def harness(u, n, checked):
    N = n
    b = """
  enum { N = %(N)d };
  IN_BYTES(g, N + 2); unsigned char old[N + 2]; verif_copy(old, g, N + 2);
  unsigned char *a = g + 1;
  IN_BYTES(s, N + 1); IN(u32, L); IN(u32, mode); IN(u32, which); IN(u8, v); IN(u32, cnt);
  VASSUME(L <= N); VASSUME(mode <= 2); VASSUME(cnt <= N);
  i64 r = -1; u64 ur = 0;
  /* reference facts */
  unsigned first_nul = N, after_last_nonnul = 0;
  for (unsigned i = 0; i < N; i++) if (old[1 + i] == 0 && first_nul == N) first_nul = i;
  for (unsigned i = 0; i < N; i++) if (old[1 + i] != 0) after_last_nonnul = i + 1;
  if (which == 0 || which == 1) {            /* assign_string(const char*, eos) */
    for (unsigned i = 0; i < N; i++) if (i < L) VASSUME(s[i] != 0);
    s[L] = 0;
    if (which == 0) CALL(r = as_cstr_%(n)d(a, N, s, mode)); else { mode = 2; CALL(r = as_cstr_dflt_%(n)d(a, N, s)); }
  } else if (which == 2) { CALL(r = as_range_%(n)d(a, N, s, L, mode)); }
  else if (which == 3) { mode = 0; CALL(r = ar_range_%(n)d(a, N, s, L)); }
  else if (which == 4) { mode = 0; CALL(r = assign_it_%(n)d(a, N, s, L)); }
  else if (which == 11) { mode = 0; CALL(r = assign_sp_%(n)d(a, N, s, L)); }   /* genuinely single-pass input iterators (istream_iterator-like) */
  else if (which == 5) { mode = 0;
%(ilcalls)s
  }
  else if (which == 6) { CALL(fill_%(n)d(a, N, v)); }
  else if (which == 7) { CALL(r = assign_cv_%(n)d(a, N, cnt, v)); }
  else if (which == 8) { CALL(ur = strlen_%(n)d(a, N)); }
  else if (which == 9) { CALL(ur = strlen_r_%(n)d(a, N)); }
  else { VASSUME(which == 10); CALL(ur = size_%(n)d(a, N)); }
  VASSERT(!verif_aborted, "documented preconditions hold, so the assertion handler must not fire");
  VASSERT(g[0] == old[0] && g[N + 1] == old[N + 1], "no byte before element 0 or beyond element N-1 is written");
  if (which <= 5 || which == 11) {
    VASSERT(r == (i64)L, "returned iterator designates the position past the last written character");
    for (unsigned i = 0; i < N; i++) {
      if (i < L) VASSERT(a[i] == s[i], "content bytes are copied exactly");
      else if (mode == 2) VASSERT(a[i] == 0, "eos_null::all pads every remaining element with NUL");
      else if (mode == 1 && i == L) VASSERT(a[i] == 0, "eos_null::single writes exactly one NUL after the content");
      else VASSERT(a[i] == old[1 + i], "elements after the content (and after the single NUL) keep their value");
    }
  } else if (which == 6) {
    for (unsigned i = 0; i < N; i++) VASSERT(a[i] == v, "fill assigns every element");
  } else if (which == 7) {
    VASSERT(r == (i64)cnt, "assign(count, v) returns begin()+count");
    for (unsigned i = 0; i < N; i++) VASSERT(a[i] == (i < cnt ? v : old[1 + i]), "assign(count, v) writes exactly the first count elements");
  } else {
    for (unsigned i = 0; i < N; i++) VASSERT(a[i] == old[1 + i], "strlen/strlen_r/size do not modify the array");
    if (which == 8) VASSERT(ur == first_nul, "strlen == index of the first NUL or N");
    if (which == 9) VASSERT(ur == after_last_nonnul, "strlen_r == index after the last non-NUL or 0");
    if (which == 10) VASSERT(ur == N + 16 * N, "size() == N and end()-begin() == N");
  }
""" % {"n": n, "N": N, "ilcalls": "\n".join("    if (L == %d) CALL(r = assign_il_%d_%d(a, N, s));" % (k, n, k) for k in range(n + 1))}
    return hgen.harness([u], b)


def build(ctx):
    hs = []
    ns = list(range(0, ctx.q(9, 13)))
    ctx.assumptions = ["input length L <= N (documented precondition); C-string overload: no interior NUL; all array contents, guards, input bytes, L, eos mode, count, value symbolic"]
    modes = ["checked"] if ctx.quick else ["checked", "unchecked"]
    plan = [(std, mode, False) for std in hgen.stds(ctx) for mode in modes]
    # hook H3: is_constant_evaluated() forced to true, so the branches that only constant evaluation takes (string_length loop in
    # assign_string(const char*), bounded scan in strlen) are lowered as ordinary code and meet the same obligations (C++20 only: they do not exist before)
    plan += [("20", mode, True) for mode in modes]
    for std, mode, ce in plan:
        if True:
            u = ctx.lower("c14ce" if ce else "c14", cpp(ns), std=std, mode=mode, extra=hgen.CE_FLAGS if ce else ())
            for n in ns:
                hs.append(P.Harness("arr%d_%s_cxx%s%s" % (n, mode, std, "_consteval" if ce else ""), harness(u, n, mode == "checked"), [u], unwind=n + 3,
                                    desc="static_array_ref<char,char,%d>: assign_string(cstr|range, none/single/all), assign_range, assign(it,it), assign(ilist), fill, assign(count,v), strlen, strlen_r vs. spec; guards on both sides" % n,
                                    bounds={"N": n, "input_length": "0..%d" % n, "eos_modes": 3, "std": "c++" + std, "build": mode, "constant_evaluation_branches_forced": ce},
                                    meta={"unwind_is_property": True} if ce else None))   # a scan that does not stop at N is the violation itself
    return hs
