"""seeded grammar-based generator of valid SBE schemas (thorough tier): every construct stays inside what the independent model implements"""
import os, random

PRIMS = ["char", "int8", "uint8", "int16", "uint16", "int32", "uint32", "int64", "uint64", "float", "double"]
UNS = ["uint8", "uint16", "uint32", "uint64"]


def gen(seed, k):
    rnd = random.Random(seed * 1000 + k)
    be = rnd.random() < 0.5
    pkg = "vs_rnd_%d_%d" % (seed, k)
    t = []
    hdr_types = [rnd.choice(["uint16", "uint32"]), rnd.choice(["uint16", "uint8", "uint32"]), rnd.choice(["uint16", "uint32"]), rnd.choice(["uint8", "uint16"])]
    names = ["blockLength", "templateId", "schemaId", "version"]
    order = list(range(4)); rnd.shuffle(order)
    t.append('        <composite name="messageHeader">\n' + "".join('            <type name="%s" primitiveType="%s"/>\n' % (names[i], hdr_types[i]) for i in order) + '        </composite>\n')
    dims = []
    for d in range(2):
        nb, nn = rnd.choice(UNS[:3]), rnd.choice(UNS[:3])
        mem = [('blockLength', nb), ('numInGroup', nn)]
        if rnd.random() < 0.5: mem.reverse()
        t.append('        <composite name="dim%d">\n' % d + "".join('            <type name="%s" primitiveType="%s"/>\n' % m for m in mem) + '        </composite>\n')
        dims.append("dim%d" % d)
    vds = []
    for d in range(2):
        t.append('        <composite name="vd%d">\n            <type name="length" primitiveType="%s"/>\n            <type name="varData" primitiveType="%s" length="0"/>\n        </composite>\n' % (d, rnd.choice(UNS[:3]), rnd.choice(["char", "uint8"])))
        vds.append("vd%d" % d)
    t.append('        <enum name="en" encodingType="%s">\n            <validValue name="a">1</validValue>\n            <validValue name="b">2</validValue>\n        </enum>\n' % rnd.choice(["uint8", "uint16", "int32"]))
    t.append('        <set name="st" encodingType="%s">\n            <choice name="x">0</choice>\n            <choice name="y">5</choice>\n        </set>\n' % rnd.choice(UNS))
    t.append('        <type name="arr" primitiveType="char" length="%d"/>\n' % rnd.randint(1, 4))
    t.append('        <type name="opt" primitiveType="%s" presence="optional"/>\n' % rnd.choice(PRIMS))
    t.append('        <type name="kc" primitiveType="uint8" presence="constant">9</type>\n')
    t.append('        <composite name="cp">\n            <type name="p" primitiveType="%s"/>\n            <type name="q" primitiveType="%s" offset="%d"/>\n        </composite>\n' % (
        rnd.choice(PRIMS[1:5]), rnd.choice(PRIMS[1:7]), 8 + rnd.randint(0, 2)))
    ftypes = PRIMS + ["en", "st", "arr", "opt", "kc", "cp"]
    fid = [0]

    def fields(n, indent):
        out = ""; pos = 0
        for i in range(n):
            fid[0] += 1
            ty = rnd.choice(ftypes)
            attr = ""
            size = {"char": 1, "int8": 1, "uint8": 1, "int16": 2, "uint16": 2, "int32": 4, "uint32": 4, "int64": 8, "uint64": 8, "float": 4, "double": 8}.get(ty)
            if rnd.random() < 0.25 and ty != "kc":
                attr = ' offset="__OFF%d__"' % fid[0]
            out += '%s<field name="f%d" id="%d" type="%s"%s/>\n' % (indent, fid[0], fid[0], ty, attr)
        return out

    def group(depth, indent):
        fid[0] += 1
        gname = "g%d" % fid[0]
        s = '%s<group name="%s" id="%d" dimensionType="%s">\n' % (indent, gname, fid[0], rnd.choice(dims))
        s += fields(rnd.randint(0, 3), indent + "    ")
        if depth < 2 and rnd.random() < 0.5: s += group(depth + 1, indent + "    ")
        if rnd.random() < 0.5:
            fid[0] += 1; s += '%s    <data name="d%d" id="%d" type="%s"/>\n' % (indent, fid[0], fid[0], rnd.choice(vds))
        return s + '%s</group>\n' % indent

    m = '    <sbe:message name="m" id="%d">\n' % rnd.randint(1, 60000)
    m += fields(rnd.randint(1, 5), "        ")
    for _ in range(rnd.randint(0, 2)): m += group(1, "        ")
    for _ in range(rnd.randint(0, 2)):
        fid[0] += 1; m += '        <data name="d%d" id="%d" type="%s"/>\n' % (fid[0], fid[0], rnd.choice(vds))
    m += '    </sbe:message>\n'
    xml = ('<?xml version="1.0" encoding="UTF-8"?>\n<sbe:messageSchema xmlns:sbe="http://fixprotocol.io/2016/sbe" package="%s" id="%d" version="%d" byteOrder="%s">\n    <types>\n%s    </types>\n%s</sbe:messageSchema>\n'
           % (pkg, rnd.randint(1, 60000), rnd.randint(0, 200), "bigEndian" if be else "littleEndian", "".join(t), m))
    return pkg, xml


def resolve_offsets(xml, model_cls, path):
    """explicit offsets are filled in as 'minimum + gap' using the independent model itself on a version without them (keeps the schema valid by construction)"""
    import re
    # iteratively: place each placeholder at current running offset + gap (computed by parsing the prefix without later placeholders)
    rnd = random.Random(hash(xml) & 0xffff)
    while True:
        m = re.search(r' offset="__OFF(\d+)__"', xml)
        if not m: break
        # compute the running offset of that field: parse with this and all later placeholders removed
        probe = re.sub(r' offset="__OFF\d+__"', "", xml)
        open(path, "w").write(probe)
        sch = model_cls(path)
        fname = "f" + m.group(1)
        off = None
        def find(node):
            for f in node.fields:
                if f.name == fname: return f.offset
            for g in node.groups:
                r = find(g)
                if r is not None: return r
            return None
        off = find(sch.messages[0])
        xml = xml.replace(m.group(0), ' offset="%d"' % (off + rnd.randint(0, 2)), 1)
    open(path, "w").write(xml)
    return path
