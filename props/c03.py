"""C03 -- decoding honours the WIRE blockLength / numInGroup (schema extension), for random access."""
import hgen, msggen, c01, c02, c04, c12, c19
from hgen import P, M
from msggen import SZ, pn, idx


def size_arms(g, lv):
    arms = []
    guard = g.level_guard(lv); d = lv.depth
    if not lv.path:
        code = "    u64 s = 0; CALL(s = msize_%s(buf, N)); VASSERT(!verif_aborted, \"no handler\"); VASSERT(s == r.end, \"size_bytes(message) == wire size (header + wire blockLength + groups + data)\");\n" % g.M
        arms.append(("msize", code))
    for gr in lv.node.groups:
        n = pn(lv.path + (gr.name,)); ix = idx(d)
        code = "    VASSUME(%s); u64 s = 0; CALL(s = gbytes_%s_%s(buf, N, i0, i1)); VASSERT(!verif_aborted, \"no handler\"); VASSERT(s == r.%s_end%s - r.%s_hdr%s, \"size_bytes(group) == wire size\");\n" % (guard, g.M, n, n, ix, n, ix)
        arms.append(("gbytes_" + n, code))
        code = "    VASSUME(%s); VASSUME(i%d < r.%s_n%s); u64 s = 0; CALL(s = ebytes_%s_%s(buf, N, i0, i1)); VASSERT(!verif_aborted, \"no handler\"); VASSERT(s == r.%s_eend%s[i%d] - r.%s_ent%s[i%d], \"size_bytes(entry) == wire blockLength + its groups and data\");\n" % (
            guard, d, n, ix, g.M, n, n, ix, d, n, ix, d)
        arms.append(("ebytes_" + n, code))
    for dt in lv.node.data:
        n = pn(lv.path + (dt.name,)); ix = idx(d)
        code = "    VASSUME(%s); u64 s = 0; CALL(s = dbytes_%s_%s(buf, N, i0, i1)); VASSERT(!verif_aborted, \"no handler\"); VASSERT(s == %d + r.%s_len%s, \"size_bytes(data) == length prefix + wire length\");\n" % (guard, g.M, n, dt.typ.size, n, ix)
        arms.append(("dbytes_" + n, code))
    return arms


KEEP2 = ("pad", "arrmid", "lastcomp", "lastset", "cfirst", "empty", "d3")   # quick tier: the nested messages of vs_msg2 (gng, g3) need minutes with G=2


def build(ctx):
    hs = []
    G, D, E = 2, ctx.q(1, 2), ctx.q(2, 4)
    ctx.assumptions = ["wire blockLength of the root block and of every group symbolic in [compiled, compiled+%d] independently per level; numInGroup <= %d; data length <= %d; all bytes symbolic" % (E, G, D),
                       "random access (get/set/size), the one-step cursor protocol, cursor ranges/sub-ranges and visiting (recording visitor) are all checked under extension here"]
    plan = [("vs_msg_le.xml", "17", "checked"), ("vs_msg_be.xml", "20", "checked"), ("vs_msg2_le.xml", "17", "checked")] if ctx.quick else \
        [("vs_msg_le.xml", "17", "checked"), ("vs_msg_be.xml", "17", "checked"), ("vs_msg_le.xml", "20", "checked"), ("vs_msg_be.xml", "20", "checked"),
         ("vs_msg_le.xml", "11", "checked"), ("vs_msg_be.xml", "14", "checked"), ("vs_msg_le.xml", "17", "unchecked"), ("vs_msg2_le.xml", "17", "checked"), ("vs_msg2_be.xml", "20", "checked"), ("vs_exotic.xml", "17", "checked")]
    plan = hgen.plan_env(plan)
    for (xml, std, mode) in plan:
        sch, inc = hgen.gen_headers(ctx, xml)
        for msg in sch.messages:
            if ctx.quick and msg.name in c02.QUICK_SKIP: continue
            if c02.skip2(ctx, sch, msg, KEEP2): continue
            g = msggen.MG(sch, msg, G)
            u = ctx.lower("c03_%s_%s" % (sch.ns, msg.name), g.cpp_prelude() + g.cpp_getset(setters=True) + g.cpp_geom(mutators=True, sizes=True) + g.cpp_cursor() + g.cpp_cursor_ranges(), std=std, mode=mode, incs=[inc])
            N = g.max_size(E, D) + 1
            dynamic = bool(msg.groups or msg.data)
            for lv in g.levels:
                for kind, arms, mk in (("get", c02.leaf_arms(g, lv, sch) + c02.dyn_arms(g, lv), c02.harness), ("set", c01.arms_for(g, lv), c01.harness), ("size", size_arms(g, lv), c02.harness),
                                       ("cursor", c04.arms_for(g, lv, mode == "checked"), c04.harness), ("range", c04.range_arms(g, lv), c04.harness)):
                    if not arms: continue
                    groups = [[a] for a in arms] if dynamic else [arms[j:j + 6] for j in range(0, len(arms), 6)]
                    for k, chunk in enumerate(groups):
                        nm = chunk[0][0] if dynamic else str(k)
                        hs.append(P.Harness("%s_%s_%s_%s_%s_%s_cxx%s" % (sch.ns, msg.name, lv.name, kind, nm, mode, std), mk(u, g, chunk, N, E, D), [u], unwind=G + 2,
                                            cap=ctx.q(600, 1200), backends=["minisat", "kissat"], extra_flags=["--no-standard-checks"],
                                            meta={"big_loops": ["ref_walk_%s.%d" % (msg.name, x) for x in range(16)]},
                                            desc="message %s.%s level %s under schema extension (wire blockLength up to compiled+%d at every level): %s %s found where the wire image puts it" % (sch.ns, msg.name, lv.name, E, kind, [a[0] for a in chunk]),
                                            bounds={"N": N, "G": G, "D": D, "E": E, "std": "c++" + std, "build": mode, "byte_order": "BE" if sch.be else "LE"}))
    # visiting under extension: the recording-visitor harness of C19 with the same extension bound as the other C03 arms (nested messages: G=1 in the quick tier)
    for (xml, std, mode) in ([plan[0], plan[2]] if ctx.quick else plan):
        sch, inc = hgen.gen_headers(ctx, xml)
        for msg in sch.messages:
            if ctx.quick and msg.name in c02.QUICK_SKIP: continue
            if c02.skip2(ctx, sch, msg, KEEP2 + ("gng",)): continue
            g = msggen.MG(sch, msg, 1 if (ctx.quick and any(gr.groups for gr in msg.groups)) else G)
            tags, lines, capn = msggen.visit_model(g)
            u = ctx.lower("c19_%s_%s" % (sch.ns, msg.name), g.cpp_prelude() + msggen.cpp_visit(g, tags), std=std, mode=mode, incs=[inc])
            N = g.max_size(E, 1) + 1
            fn = "visitc_%s" % g.M
            hs.append(P.Harness("%s_%s_ext_%s_cxx%s" % (sch.ns, fn, mode, std), c19.harness(u, g, lines, capn + 1, N, E, 1, fn, False), [u], unwind=G + 2,
                                cap=ctx.q(600, 1200), backends=["minisat", "kissat"], extra_flags=["--no-standard-checks"],
                                meta={"big_loops": ["ref_walk_%s.%d" % (msg.name, x) for x in range(16)]},
                                desc="%s.%s under schema extension (wire blockLength up to compiled+%d at every level): visit_children with a recording visitor reports every member/entry where the wire image puts it; final cursor at the wire end" % (sch.ns, msg.name, E),
                                bounds={"N": N, "G": g.G, "D": 1, "E": E, "std": "c++" + std, "build": mode}))
    # wire blockLength over the WHOLE type range (an extension can be arbitrarily large): entry i of a flat group is at data start + i x wire blockLength
    schd, incd = hgen.gen_headers(ctx, "vs_dims.xml")
    pairs = [(n, b) for n in c12.U for b in c12.U]
    for j in range(0, 16, 4):
        chunk = pairs[j:j + 4]
        u = ctx.lower("c12f", c12.cpp(chunk, []), std="17", mode="checked", incs=[incd])
        for (n, b) in chunk:
            hs.append(P.Harness("wide_stride_%s_%s_cxx17" % (n, b), c12.wide_harness(u, n, b), [u], unwind=4, backends=["z3", "minisat", "kissat"], cap=ctx.q(600, 1200),
                                extra_flags=["--no-standard-checks"],
                                desc="flat group numInGroup=%s blockLength=%s: operator[] address with the wire blockLength over the whole type range" % (n, b),
                                bounds={"blockLength": "full %s range (< 2^47)" % b, "numInGroup": "full %s range" % n, "i": "< 4"}))
    # nested groups (forward iteration, size_bytes and the cursor walk) with a wire blockLength beyond the range of a narrower numInGroup type
    npairs = [("uint8", "uint16"), ("uint8", "uint64"), ("uint16", "uint16")] if ctx.quick else [("uint8", "uint16"), ("uint8", "uint32"), ("uint8", "uint64"), ("uint16", "uint16"), ("uint16", "uint32")]
    un = ctx.lower("c12n", c12.cpp([], [n_ if n_ == b_ else "%s_%s" % (n_, b_) for (n_, b_) in npairs]), std="17", mode="checked", incs=[incd])
    for (n, b) in npairs:
        for arm in (0, 1, 4):
            hs.append(P.Harness("wide_nested_%s_%s_arm%d_cxx17" % (n, b, arm), c12.nested_harness(un, n, 2, b, wide=True), [un], unwind=5, backends=["minisat", "kissat"], cap=ctx.q(600, 1200),
                                defines=["VERIF_WHICH=%d" % arm], extra_flags=["--no-standard-checks"], meta={"big_unwind": 700},
                                desc="nested group (numInGroup %s / blockLength %s) under a large schema extension: wire blockLength 2 or 259, arm %d of {0 forward iteration, 1 size_bytes/front, 4 cursor_range walk + final cursor}" % (n, b, arm),
                                bounds={"size": "0..2", "blockLength": "{2, 259}", "data_len": "0..2"}))
    return hs
