"""C02 -- decoding returns exactly what a conforming SBE encoder wrote (every getter vs. byte-level reference decode)."""
import hgen, msggen
from hgen import P, M
from msggen import SZ, pn, idx


def const_bits(sch, lf):
    """expected underlying bits of a constant leaf, from the XML alone"""
    m = lf.member
    t = lf.typ
    size = SZ[t.prim]
    mask = (1 << (8 * size)) - 1
    tref = getattr(t, "value_ref", None)
    if t.kind == "type" and (tref or (m.value_ref and not t.const)):
        en, val = (tref or m.value_ref).split(".")
        et = sch.resolve(en)
        txt = dict(et.values)[val]
        return (ord(txt) if et.prim == "char" else int(txt)) & mask
    if t.kind == "enum":
        ref = m.value_ref
        en, val = ref.split(".")
        et = sch.resolve(en)
        txt = dict(et.values)[val]
        v = ord(txt) if et.prim == "char" else int(txt)
        return v & mask
    txt = t.const
    if t.prim == "char":
        return ord(txt[0]) & mask
    if t.prim in ("float", "double"):
        import struct
        f = float(txt)   # decimal literal, NaN, INF per the XML
        return struct.unpack("<I", struct.pack("<f", f))[0] if t.prim == "float" else struct.unpack("<Q", struct.pack("<d", f))[0]
    return int(txt) & mask


def leaf_arms(g, lv, sch):
    """list of (label, C code) arms for the getters of one level"""
    arms = []
    base = g.level_base(lv); guard = g.level_guard(lv); be = g.be
    for lf in lv.leaves:
        off = "(%s + %d)" % (base, lf.offset)
        if lf.kind == "array":
            n = lf.typ.length
            if lf.const:
                txt = lf.typ.const
                exp = [ord(c) for c in txt] + [0] * (n - len(txt))
                code = "    VASSUME(%s); IN(u32, k); VASSUME(k < %d); u64 got = 0, sz = 0; static const unsigned char cexp[%d] = {%s};\n" % (guard, n, n, ",".join(map(str, exp)))
                code += "    CALL(got = %s(buf, N, i0, i1, k)); CALL(sz = %s(buf, N, i0, i1));\n" % (g.wname("getel", lv, lf), g.wname("arrsize", lv, lf))
                code += '    VASSERT(!verif_aborted, "no handler"); VASSERT(got == cexp[k] && sz == %d, "string constant %s == XML value padded with NUL");\n' % (n, lf.name)
            else:
                code = "    VASSUME(%s); IN(u32, k); VASSUME(k < %d); u64 got = 0, sz = 0; i64 dp = -1;\n" % (guard, n)
                code += "    CALL(got = %s(buf, N, i0, i1, k)); CALL(dp = %s(buf, N, i0, i1)); CALL(sz = %s(buf, N, i0, i1));\n" % (g.wname("getel", lv, lf), g.wname("arrdata", lv, lf), g.wname("arrsize", lv, lf))
                code += '    VASSERT(!verif_aborted, "in-bounds getter must not invoke the handler");\n'
                code += '    VASSERT(got == buf[%s + k], "array element k == byte at field offset + k");\n' % off
                code += '    VASSERT(dp == (i64)%s && sz == %d + 1000 * %d, "array view: data() at the field offset, size()==length, size_bytes==length");\n' % (off, n, n)
            arms.append((lf.name, code)); continue
        size = SZ[lf.prim]
        if lf.const:
            code = "    VASSUME(%s); u64 got = 0; CALL(got = %s(buf, N, i0, i1));\n" % (guard, g.wname("get", lv, lf))
            code += '    VASSERT(!verif_aborted, "no handler"); VASSERT(got == 0x%xULL, "constant %s == value stated in the XML");\n' % (const_bits(sch, lf), lf.name)
        else:
            code = "    VASSUME(%s); u64 got = 0; CALL(got = %s(buf, N, i0, i1));\n" % (guard, g.wname("get", lv, lf))
            code += '    VASSERT(!verif_aborted, "in-bounds getter must not invoke the handler");\n'
            code += '    VASSERT(got == ref_rd(buf + %s, %d, %d), "getter %s (%s, %s) == byte-level decode at the schema offset in the schema byte order (bit-exact)");\n' % (
                off, size, be, lf.name, lf.prim, lf.kind)
        arms.append((lf.name, code))
    for (chain, coff, ct) in lv.comps:
        code = "    VASSUME(%s); i64 got = -1; CALL(got = %s(buf, N, i0, i1));\n" % (guard, g.wname("compaddr", lv, None, "_" + "_".join(chain)))
        code += '    VASSERT(!verif_aborted, "no handler"); VASSERT(got == (i64)(%s + %d) + 1000 * %d, "composite view starts at its offset and spans its encoded size");\n' % (base, coff, ct.size)
        arms.append(("comp_" + "_".join(chain), code))
    return arms


def dyn_arms(g, lv):
    """getters of the groups / data that are direct members of level lv (one library navigation per arm)"""
    arms = []
    guard = g.level_guard(lv); d = lv.depth
    for gr in lv.node.groups:
        n = pn(lv.path + (gr.name,)); ix = idx(d)
        code = "    VASSUME(%s); i64 o[6] = {-9, -9, -9, -9, -9, -9};\n" % guard
        code += "    CALL(ginfo_%s_%s(buf, N, i0, i1, o));\n" % (g.M, n)
        code += '    VASSERT(!verif_aborted, "in-bounds getters must not invoke the handler");\n'
        code += '    VASSERT(o[0] == (i64)r.%s_n%s && o[1] == (i64)r.%s_hdr%s && o[2] == (i64)r.%s_hdr%s && o[3] == %d, "group %s: size()==wire numInGroup; view and header start where the previous member ends");\n' % (
            n, ix, n, ix, n, ix, gr.dim.size, n)
        code += '    if (i%d < r.%s_n%s) VASSERT(o[4] == (i64)r.%s_ent%s[i%d], "entry i starts at the reference position");\n' % (d, n, ix, n, ix, d)
        arms.append(("group_" + n, code))
    for dt in lv.node.data:
        n = pn(lv.path + (dt.name,)); ix = idx(d)
        code = "    VASSUME(%s); i64 o[4] = {-9, -9, -9, -9}; IN(u32, k); VASSUME(k < 8);\n" % guard
        code += "    CALL(dinfo_%s_%s(buf, N, i0, i1, k, o));\n" % (g.M, n)
        code += '    VASSERT(!verif_aborted, "in-bounds getters must not invoke the handler");\n'
        code += '    VASSERT(o[0] == (i64)r.%s_len%s && o[1] == (i64)r.%s_off%s && o[2] == (i64)(r.%s_off%s + %d), "data %s: size()==wire length, payload right after the length prefix");\n' % (n, ix, n, ix, n, ix, dt.typ.size, n)
        code += '    if (k < r.%s_len%s) VASSERT(o[3] == buf[r.%s_off%s + %d + k], "data byte k");\n' % (n, ix, n, ix, dt.typ.size)
        arms.append(("data_" + n, code))
    return arms


def harness(u, g, arms, N, E, D):
    body = g.prologue(N, E, D) + "  SELECT(which);\n  switch (which) {\n"
    for k, (label, code) in enumerate(arms):
        body += "  case %d: { /* %s */\n%s    break; }\n" % (k, label, code)
    body += "  default: VASSUME(0);\n  }\n"
    body += '  for (unsigned i = 0; i < N; i++) VASSERT(buf[i] == old[i], "getters never write to the buffer");\n'
    return hgen.harness([u], body, pre=g.ref_c())


# the big nested message is thorough-only (its deep members need minutes per query); nsm is its small-field sibling
import os
QUICK_SKIP = () if os.environ.get("VERIF_NEST") else ("nest",)   # for the heavier setter/cursor checks (C01, C03, C04, C17, C19)


def skip2(ctx, sch, msg, keep):
    """quick tier: of the second family (vs_msg2_*) only the messages named in keep"""
    return ctx.quick and sch.ns.startswith("vs_msg2") and keep is not None and msg.name not in keep


def plan(ctx):
    """(schema xml, std, mode) combinations"""
    out = []
    if ctx.quick:
        out += [("vs_msg_le.xml", "17", "checked"), ("vs_msg_be.xml", "17", "checked"), ("vs_msg_be.xml", "20", "checked"), ("vs_hdr_c.xml", "17", "checked"),
                ("vs_msg2_le.xml", "17", "checked"), ("vs_msg2_be.xml", "20", "checked"), ("vs_exotic.xml", "17", "checked"), ("vs_hdr_j.xml", "17", "checked")]
    else:
        for std in ("11", "14", "17", "20"):
            for x in ("vs_msg_le.xml", "vs_msg_be.xml", "vs_msg2_le.xml", "vs_msg2_be.xml"):
                out.append((x, std, "checked"))
        out += [("vs_msg_le.xml", "17", "unchecked"), ("vs_msg_be.xml", "20", "unchecked")]
        out += [(x, "17", "checked") for x in ("vs_dims.xml", "vs_data_le.xml", "vs_data_be.xml", "vs_hdr_a.xml", "vs_hdr_b.xml", "vs_hdr_c.xml", "vs_hdr_d.xml", "vs_hdr_e.xml", "vs_hdr_g.xml", "vs_exotic.xml", "vs_hdr_j.xml")]
    return hgen.plan_env(out)


def random_schemas(ctx, K=6):
    """thorough tier: K schemas from the seeded grammar-based generator (VERIF_SEED)"""
    import randschema
    out = []
    if ctx.quick and not os.environ.get("VERIF_RANDOM"): return out
    for k in range(K):
        pkg, xml = randschema.gen(ctx.seed, k)
        path = ctx.slot.path("rnd", pkg + ".xml")
        randschema.resolve_offsets(xml, M.Schema, path)
        out.append(path)
    return out


def gen_any(ctx, xml):
    if os.path.isabs(xml):
        rc, out, inc = ctx.slot.generate(xml)
        if rc != 0: raise P.EngineError("sbeppc rejected generated schema %s: %s" % (xml, out[-500:]))
        return M.Schema(xml), inc
    return hgen.gen_headers(ctx, xml)


def build(ctx):
    hs = []
    G, D = 2, ctx.q(2, 3)
    ctx.assumptions = ["well-formed image: numInGroup <= %d per group, data length <= %d, wire blockLength == compiled blockLength (extension is C03); every byte of the image symbolic" % (G, D)]
    for (xml, std, mode) in plan(ctx) + [(x, "17", "checked") for x in random_schemas(ctx)]:
        sch, inc = gen_any(ctx, xml)
        for msg in sch.messages:
            g = msggen.MG(sch, msg, G)
            u = ctx.lower("c02_%s_%s" % (sch.ns, msg.name), g.cpp_prelude() + g.cpp_getset(setters=False) + g.cpp_geom(mutators=False), std=std, mode=mode, incs=[inc])
            N = g.max_size(0, D) + 1
            for lv in g.levels:
                arms = leaf_arms(g, lv, sch) + dyn_arms(g, lv)
                if not arms: continue
                dynamic = bool(msg.groups or msg.data)
                if dynamic:
                    # symbolic geometry: one solver query per arm (a symbolic selector over arms multiplies the cost)
                    for k, arm in enumerate(arms):
                        hs.append(P.Harness("%s_%s_%s_%s_%s_cxx%s" % (sch.ns, msg.name, lv.name, arm[0], mode, std), harness(u, g, arms, N, 0, D), [u], unwind=G + 2,
                                            cap=ctx.q(600, 1200), defines=["VERIF_WHICH=%d" % k], backends=["minisat", "kissat"], extra_flags=["--no-standard-checks"],
                                            meta={"big_loops": ["ref_walk_%s.%d" % (msg.name, x) for x in range(16)]},
                                            desc="message %s.%s level %s: getter(s) of %s == byte-level reference decode at the position the wire values imply; buffer unchanged" % (sch.ns, msg.name, lv.name, arm[0]),
                                            bounds={"N": N, "G": G, "D": D, "std": "c++" + std, "build": mode, "byte_order": "BE" if sch.be else "LE"}))
                    continue
                for j in range(0, len(arms), 6):
                    chunk = arms[j:j + 6]
                    hs.append(P.Harness("%s_%s_%s_%d_%s_cxx%s" % (sch.ns, msg.name, lv.name, j // 6, mode, std), harness(u, g, chunk, N, 0, D), [u], unwind=G + 2,
                                        cap=ctx.q(600, 1200), meta={"big_loops": ["ref_walk_%s.%d" % (msg.name, k) for k in range(16)]},
                                        desc="message %s.%s level %s: getters %s == byte-level reference decode; buffer unchanged" % (sch.ns, msg.name, lv.name, [a[0] for a in chunk]),
                                        bounds={"N": N, "G": G, "D": D, "std": "c++" + std, "build": mode, "byte_order": "BE" if sch.be else "LE"}))
    # "at run time and in constant evaluation": the same getter obligations on the constant-evaluation model (hgen.CE_FLAGS) of the C++20 path (bit_cast + reverse_copy as element-wise loops)
    for (xml, std) in ((("vs_msg_be.xml", "20"),) if ctx.quick else (("vs_msg_be.xml", "20"), ("vs_msg_le.xml", "20"), ("vs_msg2_be.xml", "20"), ("vs_msg_be.xml", "17"))):
        sch, inc = hgen.gen_headers(ctx, xml)
        for msg in sch.messages:
            if msg.groups or msg.data: continue     # fixed-layout messages: every primitive / enum / set / array / composite getter
            g = msggen.MG(sch, msg, G)
            u = ctx.lower("c02ce_%s_%s" % (sch.ns, msg.name), g.cpp_prelude() + g.cpp_getset(setters=False) + g.cpp_geom(mutators=False), std=std, mode="checked", incs=[inc], extra=hgen.CE_FLAGS)
            N = g.max_size(0, D) + 1
            for lv in g.levels:
                arms = leaf_arms(g, lv, sch)
                for j in range(0, len(arms), 6):
                    chunk = arms[j:j + 6]
                    hs.append(P.Harness("%s_%s_%s_%d_consteval_cxx%s" % (sch.ns, msg.name, lv.name, j // 6, std), harness(u, g, chunk, N, 0, D), [u], unwind=G + 2, cap=ctx.q(600, 1200),
                                        meta={"big_loops": ["ref_walk_%s.%d" % (msg.name, k) for k in range(16)]},
                                        desc="message %s.%s (constant-evaluation model): getters %s == byte-level reference decode" % (sch.ns, msg.name, [a[0] for a in chunk]),
                                        bounds={"N": N, "std": "c++" + std, "model": "constant-evaluation branches of sbepp (H3) and libstdc++ lowered as ordinary code", "byte_order": "BE" if sch.be else "LE"}))
    # cursor-based getters (the usual way of decoding in order) meet the same obligation from the position the member requires: same value / view as the reference decode, documented end position
    import c04
    for (xml, std, mode) in ([p_ for p_ in plan(ctx) if p_[0] in ("vs_msg_le.xml", "vs_msg2_be.xml")][:2] if ctx.quick else [p_ for p_ in plan(ctx) if p_[0].startswith("vs_msg")]):
        sch, inc = gen_any(ctx, xml)
        for msg in sch.messages:
            if ctx.quick and (msg.name in QUICK_SKIP or any(gr.groups for gr in msg.groups)): continue
            g = msggen.MG(sch, msg, G)
            uc = ctx.lower("c02cur_%s_%s" % (sch.ns, msg.name), g.cpp_prelude() + g.cpp_cursor(), std=std, mode=mode, incs=[inc])
            N = g.max_size(0, D) + 1
            dynamic = bool(msg.groups or msg.data)
            for lv in g.levels:
                carms = c04.arms_for(g, lv, mode == "checked")
                if not carms: continue
                groups = [[a] for a in carms] if dynamic else [carms[j:j + 5] for j in range(0, len(carms), 5)]
                for k, chunk in enumerate(groups):
                    nm = chunk[0][0] if dynamic else str(k)
                    hs.append(P.Harness("%s_%s_%s_cursor_%s_%s_cxx%s" % (sch.ns, msg.name, lv.name, nm, mode, std), c04.harness(uc, g, chunk, N, 0, D), [uc], unwind=G + 2,
                                        cap=ctx.q(600, 1200), backends=["minisat", "kissat"], extra_flags=["--no-standard-checks"],
                                        meta={"big_loops": ["ref_walk_%s.%d" % (msg.name, x) for x in range(16)]},
                                        desc="message %s.%s level %s: cursor-based getter(s) %s (plain, init, dont_move, init_dont_move, skip) return what the reference decode gives at the reference position" % (sch.ns, msg.name, lv.name, [a[0] for a in chunk]),
                                        bounds={"N": N, "G": G, "D": D, "std": "c++" + std, "build": mode, "byte_order": "BE" if sch.be else "LE"}))
    # open known finding F02b: <data> header composites that are not exactly [length at offset 0][varData right after it] are accepted, but the accessors assume that layout
    if "F02b" in ctx.open:
        sch, inc = hgen.gen_headers(ctx, "vs_kf_datahdr.xml")
        for mname in ("m", "m2"):
            msg = sch.message(mname)
            g = msggen.MG(sch, msg, G)
            u = ctx.lower("c02_%s_%s" % (sch.ns, msg.name), g.cpp_prelude() + g.cpp_getset(setters=False) + g.cpp_geom(mutators=False), std="17", mode="checked", incs=[inc])
            N = g.max_size(0, D) + 1
            arms = [a for a in dyn_arms(g, g.levels[0]) if a[0] == "data_d"]
            hs.append(P.Harness("%s_%s_twin_F02b_cxx17" % (sch.ns, mname), harness(u, g, arms, N, 0, D), [u], unwind=G + 2, cap=ctx.q(600, 1200), defines=["VERIF_WHICH=0"],
                                backends=["minisat", "kissat"], extra_flags=["--no-standard-checks"], expect="refuted", witness=False,
                                meta={"finding": "F02b", "big_loops": ["ref_walk_%s.%d" % (msg.name, x) for x in range(16)]},
                                desc="twin of known finding F02b: getters of <data> %s.%s.d whose header composite has %s" % (sch.ns, mname, "length at offset 1 and varData at offset 4" if mname == "m" else "a member in front of length"),
                                bounds={"N": N, "D": D, "std": "c++17"}))
    # extreme data length: the member after a <data> whose length is anywhere in 0..255 (uint8 length type)
    for (xml, std, mode) in plan(ctx)[:2 if ctx.quick else None]:
        if os.path.isabs(xml): continue
        sch, inc = hgen.gen_headers(ctx, xml)
        if not [m for m in sch.messages if m.name == "odd"]: continue
        msg = sch.message("odd")
        g = msggen.MG(sch, msg, 1)
        u = ctx.lower("c02_%s_%s" % (sch.ns, msg.name), g.cpp_prelude() + g.cpp_getset(setters=False) + g.cpp_geom(mutators=False), std=std, mode=mode, incs=[inc])
        N = g.max_size(0, 255) - 255 + 6
        for a in [x for x in dyn_arms(g, g.levels[0]) if x[0] == "data_db"]:
            hs.append(P.Harness("%s_odd_bigdata_%s_%s_cxx%s" % (sch.ns, a[0], mode, std), harness(u, g, [a], N, 0, 255), [u], unwind=4,
                                cap=ctx.q(600, 1200), backends=["minisat", "kissat"], extra_flags=["--no-standard-checks"],
                                meta={"big_loops": ["ref_walk_odd.%d" % x for x in range(16)]},
                                desc="message %s.odd: getters of the data member that follows a <data> of ANY uint8 length 0..255" % sch.ns,
                                bounds={"N": N, "G": 1, "D": "0..255", "std": "c++" + std, "build": mode}))
    return hs
