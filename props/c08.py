"""C08 (partial) -- sbeppc rejects exactly the schemas that break its layout rules: representability kernel + accepted => layout sound."""
import os, shutil
import hgen, msggen, c15
from hgen import P, M
from msggen import SZ

EXPLANATION = ("PARTIAL. K1: the real sbe_schema_validator::value_fits_into_type (reached through hook H2) -> utils::string_to_number<T> -> libstdc++ from_chars is lowered and proved equal to "
               "'the string is -?[0-9]+ (no sign for unsigned types) and its value lies in the type range' for ALL byte strings up to maxdigits+2 bytes, for the 9 integer primitive names. "
               "K3: for boundary-valid schemas (offset exactly at the minimum, blockLength exactly the content size, choice index = width-1) and for their one-edit-invalid twins, whatever the rebuilt "
               "sbeppc ACCEPTS must be layout-sound: cbmc proves pairwise non-interference of all members of every level (set A, then B reads the same) and containment inside the block on the generated code; "
               "a twin that is rejected is recorded with its exit status and diagnostic (observation, not a solver verdict). "
               "NOT covered (cannot be encoded by the IR->C route: std::string/unordered_map/variant/pugixml/exceptions with fmt): reference/cycle/kind rules, header shape, names/keywords/duplicates, XML-level checks, FP literals beyond the strtof/strtod contract stub (the numeric conversion itself is libc), choice-index comparison inside validate_choices.")

INT = {"char": (8, True), "int8": (8, True), "uint8": (8, False), "int16": (16, True), "uint16": (16, False), "int32": (32, True), "uint32": (32, False), "int64": (64, True), "uint64": (64, False)}

K1_CPP = r'''
#include <cassert>
#include <sbepp/sbeppc/sbe_schema_validator.hpp>
#define W extern "C" __attribute__((noinline))
struct sbepp_verif_access {
    static bool fits(std::string_view v, std::string_view t){ return sbepp::sbeppc::sbe_schema_validator::value_fits_into_type(v, t); }
};
'''


def k1_harness(u, name, bits, signed, maxlen):
    lo = -(1 << (bits - 1)) if signed else 0
    hi = (1 << (bits - 1)) - 1 if signed else (1 << bits) - 1
    body = r"""
  enum { ML = %(ml)d };
  IN_BYTES(s, ML); IN(u32, len); VASSUME(len <= ML);
  /* reference: -?[0-9]+ (sign only for signed types), value in range; 128-bit accumulation cannot overflow for <= 22 digits */
  _Bool ok = len > 0; unsigned i0 = 0; _Bool neg = 0;
  if (len > 0 && s[0] == '-' && %(signed)d) { neg = 1; i0 = 1; }
  if (len == i0) ok = 0;
  unsigned __int128 acc = 0;
  for (unsigned i = 0; i < ML; i++) if (i >= i0 && i < len) { if (s[i] < '0' || s[i] > '9') ok = 0; else acc = acc * 10 + (unsigned)(s[i] - '0'); }
  if (ok) { if (neg) ok = acc <= (unsigned __int128)%(neglim)sULL; else ok = acc <= (unsigned __int128)%(poslim)sULL; }
  _Bool got = 0;
  CALL(got = k_fits_%(name)s(s, len));
  VASSERT(got == ok, "value_fits_into_type(%(name)s) accepts exactly the decimal literals that are representable in the primitive type");
""" % {"ml": maxlen, "signed": 1 if signed else 0, "name": name, "neglim": str(-lo), "poslim": str(hi)}
    return hgen.harness([u], body)


RULES_OK = '''<?xml version="1.0" encoding="UTF-8"?>
<sbe:messageSchema xmlns:sbe="http://fixprotocol.io/2016/sbe" package="%(pkg)s" id="1" version="0" byteOrder="littleEndian">
    <types>
        <composite name="messageHeader">
            <type name="blockLength" primitiveType="uint16"/>
            <type name="templateId" primitiveType="uint16"/>
            <type name="schemaId" primitiveType="uint16"/>
            <type name="version" primitiveType="uint16"/>
        </composite>
        <composite name="groupSizeEncoding">
            <type name="blockLength" primitiveType="uint16"/>
            <type name="numInGroup" primitiveType="uint16"/>
        </composite>
        <composite name="cmp">
            <type name="p" primitiveType="uint16"/>
            <type name="q" primitiveType="uint32" offset="%(cmp_q_off)s"/>
            <type name="r" primitiveType="uint8"/>
        </composite>
        <enum name="eb" encodingType="uint16">
            <validValue name="x">300</validValue>
        </enum>
        <enum name="es" encodingType="uint8">
            <validValue name="top">%(enum_top)s</validValue>
        </enum>
        <type name="kref" primitiveType="%(vr_type)s" presence="constant" valueRef="eb.x"/>
        <type name="lim" primitiveType="uint8" minValue="0" maxValue="%(max8)s"/>
        <type name="kc" primitiveType="int8" presence="constant">%(const8)s</type>
        <set name="bits" encodingType="uint8">
            <choice name="lo">0</choice>
            <choice name="hi">%(choice_hi)s</choice>
        </set>
%(extra_types)s    </types>
    <sbe:message name="m" id="1" blockLength="%(m_bl)s">
        <field name="a" id="1" type="uint32"/>
        <field name="b" id="2" type="uint16" offset="%(b_off)s"/>
        <field name="c" id="3" type="cmp"/>
        <field name="s" id="4" type="bits"/>
        <field name="kr" id="8" type="kref"/>
        <field name="kk" id="9" type="kc"/>
        <field name="l" id="10" type="lim" offset="%(l_off)s"/>
        <field name="e" id="11" type="es"/>
%(extra_fields)s        <group name="g" id="5" blockLength="%(g_bl)s">
            <field name="x" id="6" type="uint16"/>
            <field name="y" id="7" type="uint32" offset="%(y_off)s"/>
        </group>
    </sbe:message>
</sbe:messageSchema>
'''
BASE = {"pkg": "vs_rules", "cmp_q_off": "2", "choice_hi": "7", "m_bl": "16", "b_off": "4", "g_bl": "6", "y_off": "2",
        "vr_type": "uint16", "max8": "254", "const8": "-128", "enum_top": "255", "l_off": "14", "extra_types": "", "extra_fields": ""}
TWINS = {  # one rule-breaking edit each
    "field_offset_below_min": {"b_off": "3"},
    "message_blocklength_below_content": {"m_bl": "15"},
    "valueref_not_representable": {"vr_type": "uint8"},
    "maxvalue_not_representable": {"max8": "256"},
    "constant_not_representable": {"const8": "-129"},
    "enum_value_not_representable": {"enum_top": "256"},
    "composite_member_offset_below_min": {"cmp_q_off": "1"},
    "group_blocklength_below_content": {"g_bl": "5"},
    "entry_field_offset_below_min": {"y_off": "1"},
    "choice_index_beyond_width": {"choice_hi": "8"},
    # an explicit offset of 0 on a member that is not the first one is an offset below the minimum like any other (0 must not be mistaken for "no offset given")
    "field_offset_zero": {"b_off": "0"},
    "composite_member_offset_zero": {"cmp_q_off": "0"},
    "entry_field_offset_zero": {"y_off": "0"},
}
T_ = "        "
TWINS_OTHER = {  # rules that are not about layout: the twin must be rejected (observed exit status + located diagnostic); nothing for a solver to decide unless it is accepted
    "multi_byte_array": {"extra_types": T_ + '<type name="arr16" primitiveType="uint16" length="2"/>\n', "m_bl": "20", "extra_fields": T_ + '<field name="xa" id="20" type="arr16"/>\n'},
    # a zero-length array (the varData placeholder of a <data> header) is an array as well: multi-byte elements are rejected there too
    "multi_byte_zero_length_type": {"extra_types": T_ + '<type name="z16" primitiveType="uint16" length="0"/>\n'},
    "multi_byte_vardata": {"extra_types": T_ + '<composite name="vdw">\n' + T_ + '    <type name="length" primitiveType="uint8"/>\n' + T_ + '    <type name="varData" primitiveType="uint16" length="0"/>\n' + T_ + '</composite>\n',
                           "_after_group": T_ + '<data name="xd" id="21" type="vdw"/>\n'},
    "multi_byte_vardata_through_ref": {"extra_types": T_ + '<type name="w32" primitiveType="int32" length="0"/>\n' + T_ + '<composite name="vdr">\n' + T_ + '    <type name="length" primitiveType="uint16"/>\n' + T_ + '    <ref name="varData" type="w32"/>\n' + T_ + '</composite>\n',
                                       "_after_group": T_ + '<data name="xd" id="21" type="vdr"/>\n'},
    "ref_member_offset_below_min": {"extra_types": T_ + '<composite name="cr">\n' + T_ + '    <type name="p" primitiveType="uint16"/>\n' + T_ + '    <ref name="r" type="lim" offset="1"/>\n' + T_ + '</composite>\n'},
    "ref_member_offset_zero": {"extra_types": T_ + '<composite name="cr">\n' + T_ + '    <type name="p" primitiveType="uint16"/>\n' + T_ + '    <ref name="r" type="lim" offset="0"/>\n' + T_ + '</composite>\n'},
    "enum_member_offset_zero": {"extra_types": T_ + '<composite name="ce">\n' + T_ + '    <type name="p" primitiveType="uint32"/>\n' + T_ + '    <enum name="e" encodingType="uint8" offset="0">\n' + T_ + '        <validValue name="x">1</validValue>\n' + T_ + '    </enum>\n' + T_ + '</composite>\n'},
    "set_member_offset_below_min": {"extra_types": T_ + '<composite name="cs">\n' + T_ + '    <type name="p" primitiveType="uint32"/>\n' + T_ + '    <set name="s" encodingType="uint8" offset="3">\n' + T_ + '        <choice name="x">1</choice>\n' + T_ + '    </set>\n' + T_ + '</composite>\n'},
    "nested_composite_member_offset_zero": {"extra_types": T_ + '<composite name="cc">\n' + T_ + '    <type name="p" primitiveType="uint32"/>\n' + T_ + '    <composite name="in" offset="0">\n' + T_ + '        <type name="q" primitiveType="uint8"/>\n' + T_ + '    </composite>\n' + T_ + '</composite>\n'},
    "unknown_type_reference": {"m_bl": "20", "extra_fields": T_ + '<field name="xu" id="20" type="nosuchtype"/>\n'},
    "data_type_not_a_composite": {"extra_fields": "", "extra_types": "", "_after_group": T_ + '<data name="xd" id="21" type="lim"/>\n'},
    "dimension_type_not_a_composite": {"_after_group": T_ + '<group name="xg" id="22" dimensionType="es">\n' + T_ + '    <field name="q" id="23" type="uint8"/>\n' + T_ + '</group>\n'},
    "cyclic_composite_reference": {"extra_types": T_ + '<composite name="cya">\n' + T_ + '    <type name="v" primitiveType="uint8"/>\n' + T_ + '    <ref name="b" type="cyb"/>\n' + T_ + '</composite>\n'
                                   + T_ + '<composite name="cyb">\n' + T_ + '    <ref name="a" type="cya"/>\n' + T_ + '</composite>\n'},
    "keyword_field_name": {"m_bl": "20", "extra_fields": T_ + '<field name="class" id="20" type="uint8"/>\n'},
    "invalid_field_name": {"m_bl": "20", "extra_fields": T_ + '<field name="1abc" id="20" type="uint8"/>\n'},
    "invalid_type_name": {"extra_types": T_ + '<type name="a-b" primitiveType="uint8"/>\n'},
    "duplicate_field_name": {"m_bl": "20", "extra_fields": T_ + '<field name="a" id="20" type="uint8"/>\n'},
    "duplicate_enum_value_name": {"extra_types": T_ + '<enum name="dupe" encodingType="uint8">\n' + T_ + '    <validValue name="x">1</validValue>\n' + T_ + '    <validValue name="x">2</validValue>\n' + T_ + '</enum>\n'},
    "duplicate_choice_name": {"extra_types": T_ + '<set name="dups" encodingType="uint8">\n' + T_ + '    <choice name="x">1</choice>\n' + T_ + '    <choice name="x">2</choice>\n' + T_ + '</set>\n'},
    "minvalue_not_representable": {"extra_types": T_ + '<type name="badmin" primitiveType="int8" minValue="-129"/>\n'},
    "nullvalue_not_representable": {"extra_types": T_ + '<type name="badnull" primitiveType="uint16" presence="optional" nullValue="65536"/>\n'},
    "non_numeric_value": {"extra_types": T_ + '<type name="badnum" primitiveType="uint16" maxValue="12x"/>\n'},
    "char_enum_value_two_chars": {"extra_types": T_ + '<enum name="badc" encodingType="char">\n' + T_ + '    <validValue name="x">AB</validValue>\n' + T_ + '</enum>\n'},
    "enum_encoding_not_integral": {"extra_types": T_ + '<enum name="badf" encodingType="float">\n' + T_ + '    <validValue name="x">1</validValue>\n' + T_ + '</enum>\n'},
    "set_encoding_signed": {"extra_types": T_ + '<set name="bads" encodingType="int8">\n' + T_ + '    <choice name="x">1</choice>\n' + T_ + '</set>\n'},
    # a composite that is a valid header for one use is not thereby valid for the other (group dimension vs. <data> header)
    "group_dimension_used_as_data_header": {"_after_group": T_ + '<data name="xd" id="21" type="groupSizeEncoding"/>\n'},
    "data_header_used_as_group_dimension": {"extra_types": T_ + '<composite name="vd">\n' + T_ + '    <type name="length" primitiveType="uint8"/>\n' + T_ + '    <type name="varData" primitiveType="uint8" length="0"/>\n' + T_ + '</composite>\n',
                                            "_after_group": T_ + '<data name="xd" id="21" type="vd"/>\n',
                                            "_after_message": '    <sbe:message name="m2" id="2">\n' + T_ + '<field name="a" id="1" type="uint8"/>\n' + T_ + '<group name="g2" id="2" dimensionType="vd">\n' + T_ + '    <field name="x" id="3" type="uint8"/>\n' + T_ + '</group>\n    </sbe:message>\n'},
    "data_header_vardata_with_length": {"extra_types": T_ + '<composite name="vdl">\n' + T_ + '    <type name="length" primitiveType="uint8"/>\n' + T_ + '    <type name="varData" primitiveType="uint8" length="4"/>\n' + T_ + '</composite>\n',
                                        "_after_group": T_ + '<data name="xd" id="21" type="vdl"/>\n'},
    # more rules the parser / validator enforce (each observed to be rejected with a located diagnostic on the unchanged tree): uniqueness of types (case-insensitive), messages, message ids,
    # level members and composite members; header member shapes; member order; value / reference / attribute well-formedness; enum encoding kinds
    "duplicate_type_name": {"extra_types": T_ + '<type name="lim" primitiveType="uint16"/>\n'},
    "duplicate_type_name_case": {"extra_types": T_ + '<type name="LIM" primitiveType="uint16"/>\n'},
    "duplicate_message_name": {"_after_message": '    <sbe:message name="m" id="2">\n' + T_ + '<field name="a" id="1" type="uint8"/>\n    </sbe:message>\n'},
    "duplicate_message_id": {"_after_message": '    <sbe:message name="m2" id="1">\n' + T_ + '<field name="a" id="1" type="uint8"/>\n    </sbe:message>\n'},
    "duplicate_group_name": {"_after_group": T_ + '<group name="g" id="25">\n' + T_ + '    <field name="q" id="26" type="uint8"/>\n' + T_ + '</group>\n'},
    "group_named_like_field": {"_after_group": T_ + '<group name="a" id="25">\n' + T_ + '    <field name="q" id="26" type="uint8"/>\n' + T_ + '</group>\n'},
    "duplicate_composite_member_name": {"extra_types": T_ + '<composite name="dcm">\n' + T_ + '    <type name="p" primitiveType="uint8"/>\n' + T_ + '    <type name="p" primitiveType="uint16"/>\n' + T_ + '</composite>\n'},
    "header_blocklength_array": {"_replace": ('<type name="blockLength" primitiveType="uint16"/>\n            <type name="templateId"', '<type name="blockLength" primitiveType="uint8" length="2"/>\n            <type name="templateId"')},
    "header_blocklength_constant": {"_replace": ('<type name="blockLength" primitiveType="uint16"/>\n            <type name="templateId"', '<type name="blockLength" primitiveType="uint16" presence="constant">16</type>\n            <type name="templateId"')},
    "data_without_length": {"extra_types": T_ + '<composite name="vs">\n' + T_ + '    <type name="varData" primitiveType="uint8" length="0"/>\n' + T_ + '</composite>\n', "_after_group": T_ + '<data name="xd" id="21" type="vs"/>\n'},
    "field_after_group": {"_after_group": T_ + '<field name="late" id="30" type="uint8"/>\n'},
    "group_after_data": {"_after_group": T_ + '<data name="xd" id="21" type="vdq"/>\n' + T_ + '<group name="g9" id="25">\n' + T_ + '    <field name="q" id="26" type="uint8"/>\n' + T_ + '</group>\n', "extra_types": T_ + '<composite name="vdq">\n' + T_ + '    <type name="length" primitiveType="uint8"/>\n' + T_ + '    <type name="varData" primitiveType="uint8" length="0"/>\n' + T_ + '</composite>\n'},
    "negative_choice_index": {"extra_types": T_ + '<set name="ni" encodingType="uint8">\n' + T_ + '    <choice name="x">-1</choice>\n' + T_ + '</set>\n'},
    "valueref_unknown_enum": {"extra_types": T_ + '<type name="vr2" primitiveType="uint16" presence="constant" valueRef="nosuch.x"/>\n'},
    "valueref_unknown_value": {"extra_types": T_ + '<type name="vr2" primitiveType="uint16" presence="constant" valueRef="eb.nosuch"/>\n'},
    "constant_without_value": {"extra_types": T_ + '<type name="cwv" primitiveType="uint16" presence="constant"></type>\n'},
    "negative_offset": {"b_off": "-1"},
    "message_id_not_numeric": {"_replace": ('<sbe:message name="m" id="1"', '<sbe:message name="m" id="x1"')},
    "missing_field_id": {"m_bl": "20", "extra_fields": T_ + '<field name="noid" type="uint8"/>\n'},
    "missing_field_type": {"m_bl": "20", "extra_fields": T_ + '<field name="noty" id="40"/>\n'},
    "ref_to_unknown": {"extra_types": T_ + '<composite name="ru">\n' + T_ + '    <ref name="r" type="nosuch"/>\n' + T_ + '</composite>\n'},
    "self_ref_composite": {"extra_types": T_ + '<composite name="selfc">\n' + T_ + '    <ref name="r" type="selfc"/>\n' + T_ + '</composite>\n'},
    "enum_encoding_unknown": {"extra_types": T_ + '<enum name="eu" encodingType="nosuch">\n' + T_ + '    <validValue name="x">1</validValue>\n' + T_ + '</enum>\n'},
    "enum_encoding_is_enum": {"extra_types": T_ + '<enum name="ee" encodingType="eb">\n' + T_ + '    <validValue name="x">1</validValue>\n' + T_ + '</enum>\n'},
    "enum_encoding_array_type": {"extra_types": T_ + '<type name="a2" primitiveType="uint8" length="2"/>\n' + T_ + '<enum name="ea" encodingType="a2">\n' + T_ + '    <validValue name="x">1</validValue>\n' + T_ + '</enum>\n'},
    "header_without_version": {"_drop": '            <type name="version" primitiveType="uint16"/>\n'},
    "dimension_without_numingroup": {"_drop": '            <type name="numInGroup" primitiveType="uint16"/>\n'},
}


def noninterference_harness(u, g, lv):
    """for every ordered pair (A, B) of distinct scalar leaves of a level: B reads the same before and after set A"""
    leaves = [lf for lf in lv.leaves if not lf.const and lf.kind != "array"]
    guard = g.level_guard(lv)
    body = g.prologue(64, 0, 1) + "  VASSUME(%s);\n  IN(u32, a); IN(u32, b); IN(u64, v); VASSUME(a < %d && b < %d && a != b);\n  u64 before = 0, after = 0;\n" % (guard, len(leaves), len(leaves))
    for k, lf in enumerate(leaves):
        body += "  if (b == %d) CALL(before = %s(buf, N, i0, i1));\n" % (k, g.wname("get", lv, lf))
    for k, lf in enumerate(leaves):
        body += "  if (a == %d) CALL(%s(buf, N, i0, i1, v));\n" % (k, g.wname("set", lv, lf))
    for k, lf in enumerate(leaves):
        body += "  if (b == %d) CALL(after = %s(buf, N, i0, i1));\n" % (k, g.wname("get", lv, lf))
    body += '  VASSERT(!verif_aborted, "no handler");\n'
    body += '  VASSERT(before == after, "no two members of a level overlap: writing one never changes what another reads");\n'
    base = g.level_base(lv); bl = g.level_bl(lv)
    body += '  for (unsigned i = 0; i < N; i++) if (i < %s || i >= %s + %s) VASSERT(buf[i] == old[i], "setters of a level write only inside [level, level + blockLength)");\n' % (base, base, bl)
    return hgen.harness([u], body, pre=g.ref_c())


def build(ctx):
    hs = []
    ctx.assumptions = ["K1: all byte strings of length 0..maxdigits+2 (every byte symbolic); libstdc++ from_chars is inlined into the IR (real code, not a model)",
                       "K3: schemas enumerated: one boundary-valid schema + 6 one-edit-invalid twins; non-interference is decided on the generated code for all buffers and values"]
    # ---- K1
    cpp = K1_CPP + "".join("W bool k_fits_%s(const char* s, size_t n){ return sbepp_verif_access::fits(std::string_view{s, n}, \"%s\"); }\n" % (t, t) for t in INT)
    u = ctx.try_lower("c08k1", cpp, std="17", mode="unchecked", exceptions=True, extra=["-DNDEBUG", "-I" + P.REPO + "/sbeppc/src", "-I" + P.FMT_PREFIX + "/include"],
                      extern_map={"__stub_funcs__": {"throw_error": "env_throw_error"}})
    if "error" in u:
        raise P.EngineError("K1 kernel does not lower: %s %s" % (u["error"], u.get("stderr", "")[-800:]))
    for t, (bits, signed) in INT.items():
        digits = len(str((1 << bits) - 1))
        ml = digits + 2 if (bits < 64 or not ctx.quick) else digits + 1
        if ctx.quick and bits == 64: ml = 12   # quick tier: 64-bit types up to 12 bytes (full 22 in the thorough tier)
        h = P.Harness("k1_%s" % t, k1_harness(u, t, bits, signed, ml), [u], unwind=ml + 2, cap=ctx.q(200, 900), backends=["minisat", "kissat", "z3"], extra_flags=["--no-standard-checks"],
                      desc="value_fits_into_type(value, \"%s\") for all byte strings of length <= %d" % (t, ml), bounds={"string_length": "0..%d" % ml, "bytes": "all 256 values"})
        h.meta["no_native"] = True   # wrapper TU needs sbeppc headers + fmt: replayed by the solver trace only
        h.text = h.text.replace('#include "harness_rt.h"', '#include "harness_rt.h"\nvoid env_throw_error(void){ verif_aborted = 2; }')
        hs.append(h)
    # ---- K1-FP: float/double literals. strtof/strtod are libc: nondeterministic stubs constrained only by their contract
    cppf = K1_CPP + "".join("W bool k_fits_%s(const char* s, size_t n){ return sbepp_verif_access::fits(std::string_view{s, n}, \"%s\"); }\n" % (t, t) for t in ("float", "double"))
    uf = ctx.try_lower("c08k1fp", cppf, std="17", mode="unchecked", exceptions=True, extra=["-DNDEBUG", "-I" + P.REPO + "/sbeppc/src", "-I" + P.FMT_PREFIX + "/include"],
                       extern_map={"__stub_funcs__": {"throw_error": "env_throw_error"}})
    if "error" in uf:
        raise P.EngineError("K1-FP kernel does not lower: %s %s" % (uf["error"], uf.get("stderr", "")[-800:]))
    ENVFP = r"""
void env_throw_error(void){ verif_aborted = 2; }
static int env_errno; static u32 env_consumed; static int env_erange, env_overflow, env_called;
unsigned char *__errno_location(void){ return (unsigned char *)&env_errno; }
uint32_t isspace(uint32_t c){ return c == ' ' || (c >= 9 && c <= 13); }
uint32_t isalpha(uint32_t c){ return (c >= 'A' && c <= 'Z') || (c >= 'a' && c <= 'z'); }
/* contract of strtof/strtod: consumes some prefix (*end in [s, s+strlen(s)]); on overflow returns +-HUGE_VAL and sets errno=ERANGE, on underflow returns a tiny value and MAY set ERANGE */
#define STRTO(NAME, T, HUGE, TINY) T NAME(unsigned char *s, unsigned char *end){ \
  u32 n = 0; while (s[n]) n++; IN(u32, k); VASSUME(k <= n); *(unsigned char **)end = s + k; env_consumed = k; env_called++; \
  IN(u8, outcome); T v; IN(u64, bits); \
  if ((outcome & 3) == 1) { env_errno = 34; env_erange = 1; env_overflow = 1; return HUGE; } \
  if ((outcome & 3) == 2) { env_errno = 34; env_erange = 1; env_overflow = 1; return -HUGE; } \
  if ((outcome & 3) == 3) { env_errno = 34; env_erange = 1; return (bits & 1) ? TINY : -TINY; } \
  memcpy(&v, &bits, sizeof v); return v; }
STRTO(strtof, float, __builtin_inff(), 1e-45f)
STRTO(strtod, double, __builtin_inf(), 4.9e-324)
"""
    for t in ("float", "double"):
        ML = 6
        body = r"""
  enum { ML = %(ml)d };
  IN_BYTES(s, ML + 1); IN(u32, len); VASSUME(len <= ML);
  for (unsigned i = 0; i < ML; i++) if (i < len) VASSUME(s[i] != 0);
  s[len] = 0;
  /* reference of the XML/SBE rules for FP literals, given what strto* reports */
  _Bool pre = len > 0 && !(s[0] == ' ' || (s[0] >= 9 && s[0] <= 13));
  unsigned o = 0; _Bool sign = 0;
  if (len > 0 && (s[0] == '+' || s[0] == '-')) { sign = 1; o = 1; }
  unsigned sl = len - o;
  if (pre && sl > 1) {
    if (s[o] == '0' && (s[o + 1] == 'x' || s[o + 1] == 'X')) pre = 0;
    else if ((s[o] >= 'A' && s[o] <= 'Z') || (s[o] >= 'a' && s[o] <= 'z')) {
      _Bool nan = sl == 3 && s[o] == 'N' && s[o + 1] == 'a' && s[o + 2] == 'N' && !sign;
      _Bool inf = sl == 3 && s[o] == 'I' && s[o + 1] == 'N' && s[o + 2] == 'F';
      if (!nan && !inf) pre = 0;
    }
  }
  _Bool got = 0;
  CALL(got = k_fits_%(t)s(s, len));
  if (!pre) VASSERT(!got, "malformed FP literal (empty, leading space, hex, stray letters) is rejected");
  else { VASSERT(env_called == 1, "the literal is handed to strtof/strtod exactly once");
         if (env_consumed != len || env_overflow) VASSERT(!got, "an FP literal with trailing garbage, or whose magnitude overflows the type (+HUGE_VAL or -HUGE_VAL with ERANGE), is rejected");
         if (env_consumed == len && !env_erange) VASSERT(got, "a completely consumed, representable FP literal is accepted");
         /* ERANGE on underflow (tiny result): the property does not say whether such a literal is representable -- not asserted */ }
""" % {"ml": ML, "t": t}
        h = P.Harness("k1_%s" % t, hgen.harness([uf], body, pre=ENVFP), [uf], unwind=ML + 3, cap=ctx.q(200, 900), backends=["minisat", "kissat"], extra_flags=["--no-standard-checks"],
                      desc="value_fits_into_type(value, \"%s\") for all strings of length <= %d against a contract stub of strtof/strtod (any prefix consumed, any value, ERANGE for +-overflow and underflow)" % (t, ML),
                      bounds={"string_length": "0..%d" % ML, "strto*": "nondeterministic contract stub"}, meta={"no_native": True})
        hs.append(h)
    # ---- K4: name rule kernel (public static is_sbe_symbolic_name; <cctype> calls are libc: "C"-locale stubs in the harness)
    cpp4 = K1_CPP + r"""
W bool k_symname(const char* s, size_t n){ return sbepp::sbeppc::sbe_schema_validator::is_sbe_symbolic_name(std::string_view{s, n}); }
W int64_t k_offset(bool has, uint64_t off, uint64_t minoff, const sbepp::sbeppc::source_location* loc){
    std::optional<sbepp::offset_t> o; if(has) o = static_cast<sbepp::offset_t>(off);
    return static_cast<int64_t>(sbepp::sbeppc::utils::get_valid_offset(o, static_cast<sbepp::offset_t>(minoff), *loc)); }
W void k_valueref(const char* s, size_t n, int64_t* out){
    auto r = sbepp::sbeppc::utils::parse_value_ref(std::string_view{s, n});
    out[0] = r.enum_name.data() ? r.enum_name.data() - s : -1; out[1] = r.enum_name.size();
    out[2] = r.enumerator.data() ? r.enumerator.data() - s : -1; out[3] = r.enumerator.size(); }
W uint64_t k_offset_width(){ return sizeof(sbepp::offset_t); }
"""
    u4 = ctx.try_lower("c08k4", cpp4, std="17", mode="unchecked", exceptions=True, extra=["-DNDEBUG", "-I" + P.REPO + "/sbeppc/src", "-I" + P.FMT_PREFIX + "/include"],
                       extern_map={"__stub_funcs__": {"throw_error": "env_throw_error", "__throw_out_of_range_fmt": "env_throw_std"}})
    if "error" in u4:
        raise P.EngineError("K4 kernels do not lower: %s %s" % (u4["error"], u4.get("stderr", "")[-800:]))
    ENV4 = r"""
void env_throw_error(void){ verif_aborted = 2; }
void env_throw_std(void){ verif_aborted = 3; }   /* std::out_of_range from string_view::substr: nobody catches it -> would terminate sbeppc */
/* <cctype> in the "C" locale (sbeppc never calls setlocale) */
uint32_t isdigit(uint32_t c){ return c >= '0' && c <= '9'; }
uint32_t isalpha(uint32_t c){ return (c >= 'A' && c <= 'Z') || (c >= 'a' && c <= 'z'); }
uint32_t isalnum(uint32_t c){ return isdigit(c) || isalpha(c); }
"""
    ML = ctx.q(6, 9)
    body = r"""
  enum { ML = %(ml)d };
  IN_BYTES(s, ML); IN(u32, len); VASSUME(len <= ML);
  _Bool ok = len > 0 && !(s[0] >= '0' && s[0] <= '9');
  for (unsigned i = 0; i < ML; i++) if (i < len) { unsigned char c = s[i]; if (!((c >= 'A' && c <= 'Z') || (c >= 'a' && c <= 'z') || (c >= '0' && c <= '9') || c == '_')) ok = 0; }
  _Bool got = 0;
  CALL(got = k_symname(s, len));
  VASSERT(verif_aborted == 0, "the name kernel never throws");
  VASSERT(got == ok, "is_sbe_symbolic_name accepts exactly [A-Za-z_][A-Za-z0-9_]* (invalid names are rejected, valid ones accepted)");
""" % {"ml": ML}
    hs.append(P.Harness("k4_symbolic_name", hgen.harness([u4], body, pre=ENV4), [u4], unwind=ML + 2, cap=ctx.q(200, 900), backends=["minisat", "kissat"], extra_flags=["--no-standard-checks"],
                        desc="sbe_schema_validator::is_sbe_symbolic_name for all byte strings of length <= %d (libc <cctype> as C-locale stubs)" % ML,
                        bounds={"string_length": "0..%d" % ML, "bytes": "all 256 values"}, meta={"no_native": True}))
    body = r"""
  IN(u8, has); IN(u64, off); IN(u64, minoff); IN_BYTES(loc, 64);
  u64 w = 0; CALL(w = k_offset_width());
  if (w < 8) { VASSUME(off < (1ull << 32)); VASSUME(minoff < (1ull << 32)); }
  VASSUME(has <= 1);
  i64 r = 0;
  CALL(r = k_offset(has, off, minoff, loc));
  if (has && off < minoff) VASSERT(verif_aborted == 2, "a custom offset below the minimum is rejected (throw_error)");
  else { VASSERT(verif_aborted == 0, "an offset at or above the minimum, or no custom offset, is accepted");
         VASSERT((u64)r == (has ? off : minoff), "the effective offset is the custom one when given, else the running minimum"); }
"""
    hs.append(P.Harness("k5_valid_offset", hgen.harness([u4], body, pre=ENV4), [u4], unwind=2, cap=ctx.q(200, 900), backends=["minisat", "kissat"], extra_flags=["--no-standard-checks"],
                        desc="utils::get_valid_offset(custom offset, minimum): rejects exactly custom < minimum, for all offset values", bounds={"offset": "full offset_t range", "minimum": "full offset_t range"},
                        meta={"no_native": True}))
    body = r"""
  enum { ML = %(ml)d };
  IN_BYTES(s, ML); IN(u32, len); VASSUME(len <= ML);
  i64 out[4] = {0, 0, 0, 0};
  CALL(k_valueref(s, len, out));
  unsigned dot = ML + 1;
  for (unsigned i = 0; i < ML; i++) if (i < len && s[i] == '.' && dot == ML + 1) dot = i;
  VASSERT(verif_aborted == 0, "parse_value_ref never throws");
  if (dot == ML + 1) VASSERT(out[1] == 0 && out[3] == 0, "a valueRef without a dot has no enum name and no enumerator");
  else { VASSERT(out[0] == 0 && out[1] == (i64)dot, "enum name == text before the first dot");
         VASSERT(out[3] == (i64)(len - dot - 1) && (out[3] == 0 || out[2] == (i64)dot + 1), "enumerator == text after the first dot"); }
""" % {"ml": ML}
    hs.append(P.Harness("k7_value_ref", hgen.harness([u4], body, pre=ENV4), [u4], unwind=ML + 2, cap=ctx.q(200, 900), backends=["minisat", "kissat"], extra_flags=["--no-standard-checks"],
                        desc="utils::parse_value_ref splits 'enum.enumerator' at the first dot, for all byte strings of length <= %d" % ML, bounds={"string_length": "0..%d" % ML}, meta={"no_native": True}))
    # ---- every verification schema of /verif/schemas breaks none of the rules (the independent model parses and lays them all out): the rebuilt sbeppc must accept each of them
    import glob
    for xml in sorted(glob.glob(os.path.join(P.VERIF, "schemas", "*.xml"))):
        rc, out, inc = ctx.slot.generate(xml)
        first = (out.strip().split("\n") or [""])[0][:200]
        ctx.observations.append({"schema": os.path.basename(xml), "sbeppc_exit": rc, "decided_by": "running the rebuilt sbeppc (observation, not a solver verdict)"})
        if rc != 0:
            d = os.path.join(P.VERIF, "replays", "C08", "valid_schema_rejected_" + os.path.basename(xml).replace(".xml", "")); os.makedirs(d, exist_ok=True)
            shutil.copy(xml, d); open(os.path.join(d, "replay.sh"), "w").write("#!/bin/sh\necho '%s'; exit 1\n" % out.replace("'", " ")[:500])
            ctx.pre_violations.append(("sbeppc rejects (rc=%d) a verification schema that breaks none of its rules: %s: %s" % (rc, os.path.basename(xml), first), d))
    # ---- K3
    work = ctx.slot.path("rules", "x")[:-2]
    variants = [("ok", dict(BASE))] + [(k, dict(BASE, **v)) for k, v in TWINS.items()] + [(k, dict(BASE, **v)) for k, v in TWINS_OTHER.items()]
    for name, params in variants:
        params["pkg"] = "vs_rules_" + name
        xml = os.path.join(work, "vs_rules_%s.xml" % name)
        text = RULES_OK % {k_: v_ for k_, v_ in params.items() if not k_.startswith("_")}
        if params.get("_after_group"): text = text.replace("        </group>\n    </sbe:message>", "        </group>\n" + params["_after_group"] + "    </sbe:message>")
        if params.get("_after_message"): text = text.replace("    </sbe:message>\n</sbe:messageSchema>", "    </sbe:message>\n" + params["_after_message"] + "</sbe:messageSchema>")
        if params.get("_drop"):
            assert params["_drop"] in text; text = text.replace(params["_drop"], "", 1)
        if params.get("_replace"):
            a_, b_ = params["_replace"]; assert a_ in text; text = text.replace(a_, b_, 1)
        open(xml, "w").write(text)
        rc, out, inc = ctx.slot.generate(xml)
        first = (out.strip().split("\n") or [""])[0][:200]
        ctx.observations.append({"schema": "vs_rules_" + name, "sbeppc_exit": rc, "first_diagnostic_line": first, "decided_by": "running the rebuilt sbeppc (observation, not a solver verdict)"})
        if name == "ok" and rc != 0:
            d = os.path.join(P.VERIF, "replays", "C08", "boundary_valid_rejected"); os.makedirs(d, exist_ok=True)
            shutil.copy(xml, d); open(os.path.join(d, "replay.sh"), "w").write("#!/bin/sh\necho '%s'; exit 1\n" % out.replace("'", " ")[:500])
            ctx.pre_violations.append(("sbeppc rejects the boundary-valid schema (offsets at the minimum, blockLength == content, choice index == width-1): %s" % first, d))
            continue
        if rc != 0:
            if ":" not in first:
                ctx.notes.append("twin %s rejected without a located diagnostic: %r" % (name, first))
            if rc < 0 or rc > 1:
                d = os.path.join(P.VERIF, "replays", "C08", "twin_not_rejected_cleanly_" + name); os.makedirs(d, exist_ok=True)
                shutil.copy(xml, d); open(os.path.join(d, "replay.sh"), "w").write("#!/bin/sh\necho 'sbeppc exit status %d on vs_rules_%s.xml: %s'; exit 1\n" % (rc, name, out.replace("'", " ")[:300]))
                ctx.pre_violations.append(("rule-breaking schema %s is not rejected with a diagnostic but ends with status %d (crash/abort)" % (name, rc), d))
            continue   # rejected, as the rules demand (recorded above)
        if name != "ok":
            # a rule-breaking twin is accepted: that alone contradicts 'rejects every schema that breaks a rule' (observed exit status; for the layout rules the solver additionally exhibits the overlap below)
            d = os.path.join(P.VERIF, "replays", "C08", "rule_breaking_schema_accepted_" + name); os.makedirs(d, exist_ok=True)
            shutil.copy(xml, d); open(os.path.join(d, "replay.sh"), "w").write("#!/bin/sh\necho 'sbeppc accepts vs_rules_%s.xml (exit 0)'; exit 1\n" % name)
            ctx.pre_violations.append(("sbeppc accepts the one-edit rule-breaking schema %s (exit 0) -- observed exit status, not a solver verdict" % name, d))
            if name in TWINS_OTHER: continue
        # accepted (the valid schema, or a twin that a changed sbeppc no longer rejects): the generated layout must be sound
        sch = M.Schema(xml)
        msg = sch.messages[0]
        g = msggen.MG(sch, msg, 2)
        ug = ctx.try_lower("c08k3_" + name, g.cpp_prelude() + g.cpp_getset(setters=True), std="17", mode="checked", incs=[inc])
        if "error" in ug:
            d = os.path.join(P.VERIF, "replays", "C08", "accepted_but_not_compilable_" + name); os.makedirs(d, exist_ok=True)
            shutil.copy(xml, d); open(os.path.join(d, "replay.sh"), "w").write("#!/bin/sh\ncat %s/*.xml; exit 1\n" % d)
            ctx.pre_violations.append(("schema %s is accepted by sbeppc but its headers do not compile: %s" % (name, ug.get("stderr", "")[:300]), d))
            continue
        import c02
        carms = [a_ for a_ in c02.leaf_arms(g, g.levels[0], sch) if a_[0] in ("kr", "kk")]
        if carms:
            hs.append(P.Harness("k3_%s_constants" % name, c02.harness(ug, g, carms, 64, 0, 1), [ug], unwind=4, cap=ctx.q(150, 600), extra_flags=["--no-standard-checks"],
                                meta={"big_loops": ["ref_walk_m.%d" % x for x in range(16)]},
                                desc="accepted schema vs_rules_%s: constants (valueRef / literal) read back exactly the XML value" % name, bounds={"N": 64}))
        for lv in g.levels:
            if len([lf for lf in lv.leaves if not lf.const and lf.kind != "array"]) < 2: continue
            hs.append(P.Harness("k3_%s_%s" % (name, lv.name), noninterference_harness(ug, g, lv), [ug], unwind=4, cap=ctx.q(150, 600), extra_flags=["--no-standard-checks"],
                                meta={"big_loops": ["ref_walk_m.%d" % x for x in range(16)]},
                                desc="accepted schema vs_rules_%s, level %s: pairwise non-interference of all members and containment in the block" % (name, lv.name),
                                bounds={"N": 64, "G": 2, "members": len(lv.leaves)}))
        # choice accessors of the accepted schema must address a bit inside the encoding
        sets = [t for t in sch.types.values() if t.kind == "set"]
        if sets:
            us = ctx.lower("c08k3s_" + name, c15.gen_cpp(sch), std="17", mode="unchecked", incs=[inc])
            for t in sets:
                hs.append(P.Harness("k3_%s_set_%s" % (name, t.name), c15.gen_harness(us, t), [us], unwind=2, desc="accepted schema vs_rules_%s: choices of set %s are independent bits inside the encoding width" % (name, t.name)))
    return hs
