"""C13 -- <data> views behave like a vector bounded by their buffer (one step from every state)."""
import hgen
from hgen import P

LT = {"uint8": 1, "uint16": 2, "uint32": 4, "uint64": 8}
VT = {"char": "char", "uint8": "uint8_t", "int8": "int8_t"}

CPP_MACRO = r'''
#include <sbepp/sbepp.hpp>
#include <initializer_list>
template<class V> struct in_it {
  using iterator_category = std::input_iterator_tag; using value_type = V; using difference_type = std::ptrdiff_t; using pointer = const V*; using reference = V;
  const char* p;
  V operator*() const { return (V)*p; }
  in_it& operator++(){ ++p; return *this; }
  in_it operator++(int){ auto t = *this; ++p; return t; }
  bool operator==(const in_it& o) const { return p == o.p; }
  bool operator!=(const in_it& o) const { return p != o.p; }
};
// a genuinely single-pass input iterator (istream_iterator-like): all copies share one position, so traversing a copy consumes the sequence
template<class V> struct sp_it {
  using iterator_category = std::input_iterator_tag; using value_type = V; using difference_type = std::ptrdiff_t; using pointer = const V*; using reference = V;
  const char** cur; const char* endp;
  struct proxy { V v; V operator*() const { return v; } };
  V operator*() const { return (V)**cur; }
  sp_it& operator++(){ ++*cur; return *this; }
  proxy operator++(int){ proxy t{(V)**cur}; ++*cur; return t; }
  bool at_end() const { return !cur || *cur == endp; }
  bool operator==(const sp_it& o) const { return at_end() == o.at_end(); }
  bool operator!=(const sp_it& o) const { return at_end() != o.at_end(); }
};
template<class V> struct vspan { const V* b; const V* e; const V* begin() const { return b; } const V* end() const { return e; } };
#define INST(I, V, L, EN) \
 using D_##I = sbepp::detail::dynamic_array_ref<char, V, L, EN>; \
 W void push_back_##I(char* p, size_t cap, uint8_t v){ D_##I d{p, cap}; d.push_back((V)v); } \
 W void pop_back_##I(char* p, size_t cap){ D_##I d{p, cap}; d.pop_back(); } \
 W int64_t insert1_##I(char* p, size_t cap, size_t pos, uint8_t v){ D_##I d{p, cap}; auto it = d.insert(d.begin() + pos, (V)v); return (const char*)it - p; } \
 W int64_t insert1a_##I(char* p, size_t cap, size_t pos, size_t j){ D_##I d{p, cap}; auto it = d.insert(d.begin() + pos, d[(typename D_##I::size_type)j]); return (const char*)it - p; } \
 W void pushbacka_##I(char* p, size_t cap, size_t j){ D_##I d{p, cap}; d.push_back(d[(typename D_##I::size_type)j]); } \
 W void resizeva_##I(char* p, size_t cap, uint64_t n, size_t j){ D_##I d{p, cap}; d.resize((typename D_##I::size_type)n, d[(typename D_##I::size_type)j]); } \
 W void assignna_##I(char* p, size_t cap, uint64_t c, size_t j){ D_##I d{p, cap}; d.assign((typename D_##I::size_type)c, d[(typename D_##I::size_type)j]); } \
 W int64_t insertn_##I(char* p, size_t cap, size_t pos, uint64_t c, uint8_t v){ D_##I d{p, cap}; auto it = d.insert(d.begin() + pos, (typename D_##I::size_type)c, (V)v); return (const char*)it - p; } \
 W int64_t insertfw_##I(char* p, size_t cap, size_t pos, const char* s, size_t k){ D_##I d{p, cap}; auto it = d.insert(d.begin() + pos, (const V*)s, (const V*)s + k); return (const char*)it - p; } \
 W int64_t insertin_##I(char* p, size_t cap, size_t pos, const char* s, size_t k){ D_##I d{p, cap}; auto it = d.insert(d.begin() + pos, in_it<V>{s}, in_it<V>{s + k}); return (const char*)it - p; } \
 W int64_t insertil0_##I(char* p, size_t cap, size_t pos, const char* s){ D_##I d{p, cap}; auto it = d.insert(d.begin() + pos, std::initializer_list<V>{}); return (const char*)it - p; } \
 W int64_t insertil1_##I(char* p, size_t cap, size_t pos, const char* s){ D_##I d{p, cap}; auto it = d.insert(d.begin() + pos, {(V)s[0]}); return (const char*)it - p; } \
 W int64_t insertil2_##I(char* p, size_t cap, size_t pos, const char* s){ D_##I d{p, cap}; auto it = d.insert(d.begin() + pos, {(V)s[0], (V)s[1]}); return (const char*)it - p; } \
 W int64_t insertil3_##I(char* p, size_t cap, size_t pos, const char* s){ D_##I d{p, cap}; auto it = d.insert(d.begin() + pos, {(V)s[0], (V)s[1], (V)s[2]}); return (const char*)it - p; } \
 W int64_t erase1_##I(char* p, size_t cap, size_t pos){ D_##I d{p, cap}; auto it = d.erase(d.begin() + pos); return (const char*)it - p; } \
 W int64_t erase2_##I(char* p, size_t cap, size_t a, size_t b){ D_##I d{p, cap}; auto it = d.erase(d.begin() + a, d.begin() + b); return (const char*)it - p; } \
 W void resize_##I(char* p, size_t cap, uint64_t n){ D_##I d{p, cap}; d.resize((typename D_##I::size_type)n); } \
 W void resizev_##I(char* p, size_t cap, uint64_t n, uint8_t v){ D_##I d{p, cap}; d.resize((typename D_##I::size_type)n, (V)v); } \
 W void resized_##I(char* p, size_t cap, uint64_t n){ D_##I d{p, cap}; d.resize((typename D_##I::size_type)n, sbepp::default_init); } \
 W void assignn_##I(char* p, size_t cap, uint64_t c, uint8_t v){ D_##I d{p, cap}; d.assign((typename D_##I::size_type)c, (V)v); } \
 W void assignit_##I(char* p, size_t cap, const char* s, size_t k){ D_##I d{p, cap}; d.assign((const V*)s, (const V*)s + k); } \
 W void assignsp_##I(char* p, size_t cap, const char* s, size_t k){ D_##I d{p, cap}; const char* cur = s; d.assign(sp_it<V>{&cur, s + k}, sp_it<V>{nullptr, nullptr}); } \
 W int64_t insertsp_##I(char* p, size_t cap, size_t pos, const char* s, size_t k){ D_##I d{p, cap}; const char* cur = s; auto it = d.insert(d.begin() + pos, sp_it<V>{&cur, s + k}, sp_it<V>{nullptr, nullptr}); return (const char*)it - p; } \
 W void assignil0_##I(char* p, size_t cap, const char* s){ D_##I d{p, cap}; d.assign(std::initializer_list<V>{}); } \
 W void assignil1_##I(char* p, size_t cap, const char* s){ D_##I d{p, cap}; d.assign({(V)s[0]}); } \
 W void assignil2_##I(char* p, size_t cap, const char* s){ D_##I d{p, cap}; d.assign({(V)s[0], (V)s[1]}); } \
 W void assignil3_##I(char* p, size_t cap, const char* s){ D_##I d{p, cap}; d.assign({(V)s[0], (V)s[1], (V)s[2]}); } \
 W void assignstr_##I(char* p, size_t cap, const char* s){ D_##I d{p, cap}; d.assign_string(s); } \
 W void assignrg_##I(char* p, size_t cap, const char* s, size_t k){ D_##I d{p, cap}; vspan<V> r{(const V*)s, (const V*)s + k}; d.assign_range(r); } \
 W void clear_##I(char* p, size_t cap){ D_##I d{p, cap}; d.clear(); } \
 W uint64_t size_##I(char* p, size_t cap){ D_##I d{p, cap}; return d.size(); } \
 W bool empty_##I(char* p, size_t cap){ D_##I d{p, cap}; return d.empty(); } \
 W uint8_t front_##I(char* p, size_t cap){ D_##I d{p, cap}; return (uint8_t)d.front(); } \
 W uint8_t back_##I(char* p, size_t cap){ D_##I d{p, cap}; return (uint8_t)d.back(); } \
 W uint8_t at_##I(char* p, size_t cap, uint64_t i){ D_##I d{p, cap}; return (uint8_t)d[(typename D_##I::size_type)i]; } \
 W int64_t begin_##I(char* p, size_t cap){ D_##I d{p, cap}; return (const char*)d.begin() - p; } \
 W int64_t end_##I(char* p, size_t cap){ D_##I d{p, cap}; return (const char*)d.end() - p; } \
 W int64_t data_##I(char* p, size_t cap){ D_##I d{p, cap}; return (const char*)d.data() - p; } \
 W uint64_t size_bytes_##I(char* p, size_t cap){ D_##I d{p, cap}; return sbepp::size_bytes(d); }
'''


def insts():
    out = []
    for lt in LT:
        for be in (False, True):
            for vt in VT:
                out.append(("%s%s_%s" % (lt, "be" if be else "le", vt), VT[vt], "sbepp::%s_t" % lt, "sbepp::endian::big" if be else "sbepp::endian::little", LT[lt], be))
    return out


def cpp(sel):
    s = hgen.W_PRELUDE + CPP_MACRO
    for (i, v, l, en, lsz, be) in sel:
        s += "INST(%s, %s, %s, %s)\n" % (i, v, l, en)
    return s


def harness(u, inst, cap, checked):
    (I, v, l, en, lsz, be) = inst
    b = r"""
  enum { CAP = %(cap)d, LSZ = %(lsz)d, TOT = 1 + LSZ + CAP + 1 };
  IN_BYTES(g, TOT); unsigned char old[TOT]; verif_copy(old, g, TOT);
  unsigned char *view = g + 1, *pay = g + 1 + LSZ; const unsigned char *opay = old + 1 + LSZ;
  u64 L = ref_rd(view, LSZ, %(be)d);
  VASSUME(L <= CAP);
  IN_BYTES(s, 4); IN(u32, k); IN(u64, pos); IN(u64, pos2); IN(u64, cnt); IN(u8, v); SELECT(which);   /* one solver query per operation (-DVERIF_WHICH=k) */
  VASSUME(k <= 3); VASSUME(pos <= L); VASSUME(pos2 <= L); VASSUME(cnt <= CAP);
  unsigned char exp[CAP]; _Bool chk[CAP]; u64 NL = L; i64 eret = -2, ret = -2;
  for (unsigned i = 0; i < CAP; i++) { exp[i] = opay[i]; chk[i] = 1; }
  const u64 VS = LSZ + CAP;   /* view size handed to the library */
  switch (which) {
  case 0: VASSUME(L + 1 <= CAP); NL = L + 1; exp[L] = v; CALL(push_back_%(I)s(view, VS, v)); break;
  case 1: VASSUME(L >= 1); NL = L - 1; CALL(pop_back_%(I)s(view, VS)); break;
  case 2: VASSUME(L + 1 <= CAP); NL = L + 1; eret = LSZ + pos;
          for (unsigned i = 0; i < CAP; i++) exp[i] = i < pos ? opay[i] : (i == pos ? v : opay[i ? i - 1 : 0]);
          CALL(ret = insert1_%(I)s(view, VS, pos, v)); break;
  case 3: VASSUME(L + cnt <= CAP); NL = L + cnt; eret = LSZ + pos;
          for (unsigned i = 0; i < CAP; i++) exp[i] = i < pos ? opay[i] : (i < pos + cnt ? v : opay[i >= cnt ? i - cnt : 0]);
          CALL(ret = insertn_%(I)s(view, VS, pos, cnt, v)); break;
  case 4: case 5: case 6: case 24: VASSUME(L + k <= CAP); NL = L + k; eret = LSZ + pos;
          for (unsigned i = 0; i < CAP; i++) exp[i] = i < pos ? opay[i] : (i < pos + k ? s[i - pos] : opay[i >= k ? i - k : 0]);
          if (which == 4) CALL(ret = insertfw_%(I)s(view, VS, pos, s, k));
          else if (which == 5) CALL(ret = insertin_%(I)s(view, VS, pos, s, k));
          else if (which == 24) CALL(ret = insertsp_%(I)s(view, VS, pos, s, k));   /* single-pass input iterators */
          else if (k == 0) CALL(ret = insertil0_%(I)s(view, VS, pos, s));
          else if (k == 1) CALL(ret = insertil1_%(I)s(view, VS, pos, s));
          else if (k == 2) CALL(ret = insertil2_%(I)s(view, VS, pos, s));
          else CALL(ret = insertil3_%(I)s(view, VS, pos, s));
          break;
  case 7: VASSUME(pos < L); NL = L - 1; eret = LSZ + pos;
          for (unsigned i = 0; i < CAP; i++) exp[i] = i < pos ? opay[i] : opay[i + 1 < CAP ? i + 1 : CAP - 1];
          CALL(ret = erase1_%(I)s(view, VS, pos)); break;
  case 8: VASSUME(pos <= pos2); NL = L - (pos2 - pos); eret = LSZ + pos;
          for (unsigned i = 0; i < CAP; i++) exp[i] = i < pos ? opay[i] : opay[i + (pos2 - pos) < CAP ? i + (pos2 - pos) : CAP - 1];
          CALL(ret = erase2_%(I)s(view, VS, pos, pos2)); break;
  case 9: NL = cnt; for (unsigned i = 0; i < CAP; i++) exp[i] = i < L ? opay[i] : 0; CALL(resize_%(I)s(view, VS, cnt)); break;
  case 10: NL = cnt; for (unsigned i = 0; i < CAP; i++) exp[i] = i < L ? opay[i] : v; CALL(resizev_%(I)s(view, VS, cnt, v)); break;
  case 11: NL = cnt; for (unsigned i = 0; i < CAP; i++) chk[i] = i < L; CALL(resized_%(I)s(view, VS, cnt)); break;
  case 12: NL = cnt; for (unsigned i = 0; i < CAP; i++) exp[i] = v; CALL(assignn_%(I)s(view, VS, cnt, v)); break;
  case 13: case 14: case 15: case 16: case 23: NL = k; for (unsigned i = 0; i < CAP; i++) exp[i] = s[i < 3 ? i : 3];
          if (which == 13) CALL(assignit_%(I)s(view, VS, s, k));
          else if (which == 23) CALL(assignsp_%(I)s(view, VS, s, k));   /* single-pass input iterators */
          else if (which == 16) CALL(assignrg_%(I)s(view, VS, s, k));
          else if (which == 15) { for (unsigned i = 0; i < 3; i++) if (i < k) VASSUME(s[i] != 0); s[k] = 0; CALL(assignstr_%(I)s(view, VS, s)); }
          else if (k == 0) CALL(assignil0_%(I)s(view, VS, s));
          else if (k == 1) CALL(assignil1_%(I)s(view, VS, s));
          else if (k == 2) CALL(assignil2_%(I)s(view, VS, s));
          else CALL(assignil3_%(I)s(view, VS, s));
          break;
  case 17: NL = 0; CALL(clear_%(I)s(view, VS)); break;
  /* arguments that alias an element of the array itself (valid for std::vector: the value is taken before the array changes) */
  case 19: VASSUME(L + 1 <= CAP && pos2 < L); NL = L + 1; eret = LSZ + pos;
          for (unsigned i = 0; i < CAP; i++) exp[i] = i < pos ? opay[i] : (i == pos ? opay[pos2] : opay[i ? i - 1 : 0]);
          CALL(ret = insert1a_%(I)s(view, VS, pos, pos2)); break;
  case 20: VASSUME(L + 1 <= CAP && pos2 < L); NL = L + 1; exp[L] = opay[pos2]; CALL(pushbacka_%(I)s(view, VS, pos2)); break;
  case 21: VASSUME(pos2 < L); NL = cnt; for (unsigned i = 0; i < CAP; i++) exp[i] = i < L ? opay[i] : opay[pos2]; CALL(resizeva_%(I)s(view, VS, cnt, pos2)); break;
  case 22: VASSUME(pos2 < L); NL = cnt; for (unsigned i = 0; i < CAP; i++) exp[i] = opay[pos2]; CALL(assignna_%(I)s(view, VS, cnt, pos2)); break;
  default: {
      VASSUME(which == 18);
      u64 sz = 0, sb = 0; _Bool em = 0; i64 bo = 0, eo = 0, dof = 0; u8 fr = 0, bk = 0, at = 0;
      CALL(sz = size_%(I)s(view, VS)); CALL(em = empty_%(I)s(view, VS)); CALL(bo = begin_%(I)s(view, VS)); CALL(eo = end_%(I)s(view, VS));
      CALL(dof = data_%(I)s(view, VS)); CALL(sb = size_bytes_%(I)s(view, VS));
      VASSERT(sz == L && em == (L == 0) && bo == LSZ && eo == (i64)(LSZ + L) && dof == LSZ && sb == LSZ + L, "size/empty/begin/end/data/size_bytes agree with the length prefix");
      if (L > 0) { CALL(fr = front_%(I)s(view, VS)); CALL(bk = back_%(I)s(view, VS)); VASSERT(fr == opay[0] && bk == opay[L - 1], "front/back"); }
      if (pos < L) { CALL(at = at_%(I)s(view, VS, pos)); VASSERT(at == opay[pos], "operator[]"); }
    }
  }
  VASSERT(!verif_aborted, "an operation valid for std::vector whose result fits the buffer must not invoke the assertion handler");
  VASSERT(ret == eret, "returned iterator designates the same position as std::vector's");
  VASSERT(ref_rd(view, LSZ, %(be)d) == NL, "length prefix == size of the vector model after the operation");
  u64 mx = L > NL ? L : NL;
  for (unsigned i = 0; i < CAP; i++) {
    if (i < NL && chk[i]) VASSERT(pay[i] == exp[i], "payload == contents of the vector model");
    if (i >= mx) VASSERT(pay[i] == opay[i], "no payload byte beyond the area in use is modified");
  }
  VASSERT(g[0] == old[0] && g[TOT - 1] == old[TOT - 1], "no byte outside the length prefix and the payload is modified");
""" % {"cap": cap, "lsz": lsz, "be": 1 if be else 0, "I": I}
    return hgen.harness([u], b)


OPS = ["push_back", "pop_back", "insert_value", "insert_count_value", "insert_forward_range", "insert_input_range", "insert_ilist", "erase_pos", "erase_range", "resize", "resize_value",
       "resize_default_init", "assign_count_value", "assign_iterators", "assign_ilist", "assign_string", "assign_range", "clear", "observers", "insert_aliasing_value", "push_back_aliasing",
       "resize_aliasing_value", "assign_aliasing_value", "assign_single_pass_iterators", "insert_single_pass_iterators"]


def wide_len_harness(u, inst):
    """operations that touch only the length prefix, from a state whose length is ANYWHERE in the length type (the payload is not in the buffer: none of these operations may access it)"""
    (I, v, l, en, lsz, be) = inst
    b = r"""
  enum { LSZ = %(lsz)d, TOT = LSZ + 6 };
  IN_BYTES(g, TOT); unsigned char old[TOT]; verif_copy(old, g, TOT);
  u64 tmax = %(tmax)s;
  u64 L = ref_rd(g, LSZ, %(be)d); VASSUME(L <= 0xfffffffffff0ULL);
  IN(u64, n); VASSUME(n <= tmax && n <= 0xfffffffffff0ULL);
  u64 claimed = (u64)1 << 48;     /* the view claims a buffer large enough for any length below 2^48; lengths beyond that must be refused by the size check, not wrapped */
  u64 NL = L; SELECT(which);
  if (which == 0) { VASSUME(L >= 1); CALL(pop_back_%(I)s(g, claimed)); NL = L - 1; }
  else if (which == 1) { CALL(resized_%(I)s(g, claimed, n)); NL = n; VASSUME(LSZ + n <= claimed); }
  else if (which == 2) { CALL(clear_%(I)s(g, claimed)); NL = 0; }
  else if (which == 3) { u64 s = 0; _Bool e = 0; i64 en_ = -1; CALL(s = size_%(I)s(g, claimed)); CALL(e = empty_%(I)s(g, claimed)); CALL(en_ = end_%(I)s(g, claimed));
                         VASSERT(s == L && e == (L == 0) && en_ == (i64)(LSZ + L), "size()/empty()/end() for every length value of the type"); }
  else VASSUME(0);
  if (which != 1 || LSZ + L <= claimed) VASSERT(!verif_aborted, "valid vector operation: no handler");
  VASSERT(ref_rd(g, LSZ, %(be)d) == NL, "length prefix == size of the vector model for every length of the type (pop_back, resize(n, default_init), clear)");
  for (unsigned i = LSZ; i < TOT; i++) VASSERT(g[i] == old[i], "operations that only change the size never touch the payload");
""" % {"lsz": lsz, "be": 1 if be else 0, "I": I, "tmax": "0x%xULL" % ((1 << (8 * lsz)) - 1)}
    return hgen.harness([u], b)


def build(ctx):
    hs = []
    cap = ctx.q(4, 6)
    ctx.assumptions = ["state: any length prefix L <= CAP=%d and any payload bytes (every such state is reachable, so one step from it covers sequences of any length)" % cap,
                       "vector preconditions (pos <= L, erase pos < L, first <= last) and result size <= CAP; source ranges of length <= 3",
                       "direct instantiation of sbepp::detail::dynamic_array_ref<char, V, L, E> for 4 length types x 2 byte orders x {char,uint8,int8}"]
    allinst = insts()
    plan = []
    if ctx.quick:
        q = ("uint8le_char", "uint8be_uint8", "uint16le_int8", "uint16be_char", "uint32le_uint8", "uint32be_int8", "uint64le_char", "uint64be_uint8")
        plan.append(("17", "checked", [i for i in allinst if i[0] in q]))
        plan.append(("20", "checked", [i for i in allinst if i[0] in ("uint16be_int8", "uint32le_char")]))
    else:
        for std in ("11", "14", "17", "20"):
            plan.append((std, "checked", allinst))
        plan.append(("17", "unchecked", allinst))
    # constant-evaluation model (C++20, where every operation is constexpr): std::copy / copy_backward / fill / rotate run as the element-wise loops the constant evaluator executes
    ce = [i for i in allinst if i[0] in (("uint16le_char", "uint8be_uint8") if ctx.quick else tuple(x[0] for x in allinst))]
    plan.append(("20", "checked+ce", ce))
    for std, mode, sel in plan:
        extra = hgen.CE_FLAGS if mode.endswith("+ce") else ()
        mode, tag = mode.replace("+ce", ""), ("_consteval" if mode.endswith("+ce") else "")
        # one instantiation per unit: every query parses only the code it needs (there is one query per operation)
        for j in range(0, len(sel), 1):
            chunk = sel[j:j + 1]
            u = ctx.lower("c13" + tag, cpp(chunk), std=std, mode=mode, extra=extra)
            for inst in chunk:
                text = harness(u, inst, cap, mode == "checked")
                for k, opname in enumerate(OPS):
                    # one query per operation: a change that makes one operation expensive to decide cannot starve the verdicts on the others
                    hs.append(P.Harness("%s_op%02d_%s_%s_cxx%s%s" % (inst[0], k, opname, mode, std, tag), text, [u], unwind=cap + 3, cap=ctx.q(600, 1200), defines=["VERIF_WHICH=%d" % k],
                                        desc="dynamic_array_ref<char,%s,%s,%s>: %s, one step from any state, vs. vector model (length prefix, payload, returned iterator, frame, no handler)" % (inst[1], inst[2], "BE" if inst[5] else "LE", opname),
                                        bounds={"CAP": cap, "source_len": "0..3", "std": "c++" + std, "build": mode, "operation": opname}))
                hs.append(P.Harness("%s_widelen_%s_cxx%s%s" % (inst[0], mode, std, tag), wide_len_harness(u, inst), [u], unwind=10, cap=ctx.q(120, 600), extra_flags=["--no-standard-checks"],
                                    desc="dynamic_array_ref<char,%s,%s,%s>: pop_back / resize(n, default_init) / clear / size / empty / end with the length prefix over the WHOLE range of its type" % (inst[1], inst[2], "BE" if inst[5] else "LE"),
                                    bounds={"length": "full range of the length type (< 2^48)", "n": "full range", "std": "c++" + std, "build": mode}))
    return hs
