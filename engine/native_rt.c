/* native side of harness_rt.h: inputs come from the file named by $VERIF_INPUTS ("name value" lines) */
#include <stdio.h>
#include <stdlib.h>
#include <string.h>
#include <stdint.h>
#include <setjmp.h>
jmp_buf verif_jb; int verif_failures;
struct kv { char name[64]; uint64_t v; };
static struct kv *tab; static size_t ntab; static int loaded;
static void load(void) {
  loaded = 1;
  const char *fn = getenv("VERIF_INPUTS");
  if (!fn) return;
  FILE *f = fopen(fn, "r"); if (!f) { perror(fn); exit(2); }
  char name[64]; unsigned long long v;
  while (fscanf(f, "%63s %llu", name, &v) == 2) {
    tab = realloc(tab, (ntab + 1) * sizeof *tab); strcpy(tab[ntab].name, name); tab[ntab].v = v; ntab++;
  }
  fclose(f);
}
static int find(const char *name, uint64_t *v) {
  if (!loaded) load();
  for (size_t i = ntab; i-- > 0;) if (!strcmp(tab[i].name, name)) { *v = tab[i].v; return 1; }
  return 0;
}
uint64_t verif_in(const char *name) { uint64_t v = 0; find(name, &v); return v; }
void verif_in_bytes(const char *name, unsigned char *p, size_t n) {
  char k[96];
  for (size_t i = 0; i < n; i++) { uint64_t v = 0; snprintf(k, sizeof k, "%s[%zu]", name, i); find(k, &v); p[i] = (unsigned char)v; }
}
uint64_t verif_nondet_u64(void) { return 0; }
