"""Independent SBE 1.0 model: parses a schema XML (ElementTree, not pugixml) and computes sizes,
offsets, block lengths, header layouts, presence, defaults -- without looking at anything sbeppc
produces.  Used as the oracle for the generated accessors."""
import re
import xml.etree.ElementTree as ET

PRIM = {  # name: (size, signed, float, c type)
    "char": (1, True, False, "char"), "int8": (1, True, False, "int8_t"), "uint8": (1, False, False, "uint8_t"),
    "int16": (2, True, False, "int16_t"), "uint16": (2, False, False, "uint16_t"),
    "int32": (4, True, False, "int32_t"), "uint32": (4, False, False, "uint32_t"),
    "int64": (8, True, False, "int64_t"), "uint64": (8, False, False, "uint64_t"),
    "float": (4, True, True, "float"), "double": (8, True, True, "double"),
}

# SBE 1.0 table of default min / max / null for each primitive type (as unsigned bit patterns are derived below)
def sbe_defaults(p):
    size, signed, flt, _ = PRIM[p]
    bits = size * 8
    if flt:
        # SBE 1.0 gives no numeric range for float/double; sbepp documents numeric_limits::min()/max() (smallest positive
        # normal / largest finite) for its built-in types and C16 defines the default as "the values the built-in types expose"
        return {"null": "NaN", "min": "MINPOS", "max": "MAX"}
    if p == "char":
        return {"min": 0x20, "max": 0x7e, "null": 0}
    if signed:
        return {"min": -(1 << (bits - 1)) + 1, "max": (1 << (bits - 1)) - 1, "null": -(1 << (bits - 1))}
    return {"min": 0, "max": (1 << bits) - 2, "null": (1 << bits) - 1}


class Node:
    pass


class TypeDef(Node):
    kind = "type"
    def __init__(s, name, prim, length=1, presence="required", const=None, minv=None, maxv=None, nullv=None, builtin=False):
        s.name, s.prim, s.length, s.presence, s.const = name, prim, length, presence, const
        s.minv, s.maxv, s.nullv, s.builtin = minv, maxv, nullv, builtin
    @property
    def is_array(s): return s.length != 1
    @property
    def size(s): return 0 if s.presence == "constant" else PRIM[s.prim][0] * s.length


class EnumDef(Node):
    kind = "enum"
    def __init__(s, name, prim, values): s.name, s.prim, s.values = name, prim, values
    presence = "required"
    @property
    def size(s): return PRIM[s.prim][0]


class SetDef(Node):
    kind = "set"
    def __init__(s, name, prim, choices): s.name, s.prim, s.choices = name, prim, choices
    presence = "required"
    @property
    def size(s): return PRIM[s.prim][0]


class Member:
    """member of a composite / field of a level: name + type + offset inside the enclosing block"""
    def __init__(s, name, typ, offset, presence=None, explicit_offset=None, value_ref=None, const_value=None, is_ref=False, fid=None):
        s.name, s.typ, s.offset, s.presence = name, typ, offset, presence
        s.explicit_offset, s.value_ref, s.const_value, s.is_ref, s.id = explicit_offset, value_ref, const_value, is_ref, fid
    @property
    def is_constant(s):
        return s.presence == "constant" or getattr(s.typ, "presence", None) == "constant"
    @property
    def size(s): return 0 if s.is_constant else s.typ.size


class CompositeDef(Node):
    kind = "composite"
    presence = "required"
    def __init__(s, name): s.name, s.members = name, []
    @property
    def size(s):
        return max([m.offset + m.size for m in s.members] + [0])
    def member(s, name):
        for m in s.members:
            if m.name == name: return m
        return None


class Group:
    def __init__(s, name, gid, dim, explicit_bl):
        s.name, s.id, s.dim, s.explicit_bl = name, gid, dim, explicit_bl
        s.fields, s.groups, s.data = [], [], []
    @property
    def content_size(s): return max([f.offset + f.size for f in s.fields] + [0])
    @property
    def block_length(s): return s.explicit_bl if s.explicit_bl is not None else s.content_size
    @property
    def is_flat(s): return not s.groups and not s.data


class Data:
    def __init__(s, name, did, typ): s.name, s.id, s.typ = name, did, typ
    @property
    def length_member(s): return s.typ.member("length")
    @property
    def var_member(s): return s.typ.member("varData")


class Message(Group):
    pass


class Schema:
    def __init__(s, path):
        s.path = path
        root = ET.parse(path).getroot()
        s.package = root.get("package")
        s.ns = re.sub(r"\W", "_", s.package)
        s.id = int(root.get("id")); s.version = int(root.get("version", "0"))
        s.be = root.get("byteOrder", "littleEndian") == "bigEndian"
        s.header_name = root.get("headerType", "messageHeader")
        s.types = {}
        s.raw = {}
        for t in root.findall("types"):
            for el in t:
                s.raw[el.get("name").lower()] = el
        for t in root.findall("types"):
            for el in t:
                s.resolve(el.get("name"))
        s.header = s.resolve(s.header_name)
        s.messages = []
        for el in root:
            if el.tag.endswith("message"):
                s.messages.append(s.parse_message(el))

    # ------------------------------------------------------------ types
    def resolve(s, name):
        if name in PRIM:
            return TypeDef(name, name, builtin=True)
        k = name.lower()
        if k in s.types: return s.types[k]
        el = s.raw.get(k)
        if el is None: raise KeyError("unknown type " + name)
        t = s.parse_type(el)
        s.types[k] = t
        return t

    def prim_of(s, enc):
        if enc in PRIM: return enc
        t = s.resolve(enc)
        return t.prim

    def parse_type(s, el, public=True):
        tag = el.tag
        name = el.get("name")
        if tag == "type":
            presence = el.get("presence", "required")
            const = (el.text or "").strip() if presence == "constant" else None
            t = TypeDef(name, el.get("primitiveType"), int(el.get("length", "1")), presence, const,
                        el.get("minValue"), el.get("maxValue"), el.get("nullValue"))
            t.value_ref = el.get("valueRef")
            return t
        if tag == "enum":
            prim = s.prim_of(el.get("encodingType"))
            return EnumDef(name, prim, [(v.get("name"), (v.text or "").strip()) for v in el.findall("validValue")])
        if tag == "set":
            prim = s.prim_of(el.get("encodingType"))
            return SetDef(name, prim, [(c.get("name"), int((c.text or "").strip())) for c in el.findall("choice")])
        if tag == "composite":
            c = CompositeDef(name)
            pos = 0
            for m in el:
                eo = m.get("offset")
                if m.tag == "ref":
                    typ = s.resolve(m.get("type")); is_ref = True
                else:
                    typ = s.parse_type(m, public=False); is_ref = False
                off = int(eo) if eo is not None else pos
                mem = Member(m.get("name"), typ, off, explicit_offset=int(eo) if eo is not None else None, is_ref=is_ref)
                c.members.append(mem)
                pos = off + mem.size
            return c
        raise ValueError("unknown type element " + tag)

    # ------------------------------------------------------------ messages
    def parse_level(s, el, lvl):
        pos = 0
        for m in el:
            tag = m.tag
            if tag == "field":
                tname = m.get("type")
                typ = s.resolve(tname)
                presence = m.get("presence")
                eo = m.get("offset")
                off = int(eo) if eo is not None else pos
                f = Member(m.get("name"), typ, off, presence=presence, explicit_offset=int(eo) if eo is not None else None,
                           value_ref=m.get("valueRef"), fid=int(m.get("id")))
                lvl.fields.append(f)
                pos = off + f.size
            elif tag == "group":
                dim = s.resolve(m.get("dimensionType", "groupSizeEncoding"))
                bl = m.get("blockLength")
                g = Group(m.get("name"), int(m.get("id")), dim, int(bl) if bl is not None else None)
                s.parse_level(m, g)
                lvl.groups.append(g)
            elif tag == "data":
                lvl.data.append(Data(m.get("name"), int(m.get("id")), s.resolve(m.get("type"))))

    def parse_message(s, el):
        bl = el.get("blockLength")
        m = Message(el.get("name"), int(el.get("id")), s.header, int(bl) if bl is not None else None)
        s.parse_level(el, m)
        return m

    def message(s, name):
        for m in s.messages:
            if m.name == name: return m
        raise KeyError(name)


# ---------------------------------------------------------------- leaves of a block
class Leaf:
    """a scalar / array / set / enum reachable inside one block (level fields, through composites)"""
    def __init__(s, chain, offset, typ, member, const=False, optional=False):
        s.chain, s.offset, s.typ, s.member, s.const, s.optional = chain, offset, typ, member, const, optional
    @property
    def name(s): return "_".join(s.chain)
    @property
    def prim(s): return s.typ.prim
    @property
    def size(s): return 0 if s.const else s.typ.size
    @property
    def kind(s):
        if s.typ.kind == "type": return "array" if s.typ.is_array else "num"
        return s.typ.kind
    def expr(s, base):
        return base + "".join(".%s()" % c for c in s.chain)
    def parent_expr(s, base):
        return base + "".join(".%s()" % c for c in s.chain[:-1])


def leaves(members, chain=(), base=0, inherited_const=False):
    out = []
    for m in members:
        t = m.typ
        const = inherited_const or m.is_constant
        if t.kind == "composite":
            out += leaves(t.members, chain + (m.name,), base + m.offset, const)
        else:
            opt = (m.presence == "optional") or getattr(t, "presence", None) == "optional"
            out.append(Leaf(chain + (m.name,), base + m.offset, t, m, const=const, optional=opt))
    return out


def composites(members, chain=(), base=0):
    out = []
    for m in members:
        if m.typ.kind == "composite" and not m.is_constant:
            out.append((chain + (m.name,), base + m.offset, m.typ))
            out += composites(m.typ.members, chain + (m.name,), base + m.offset)
    return out


def header_fields(comp):
    """name -> (offset, prim) for the well-known members of a header/dimension/data composite"""
    out = {}
    for m in comp.members:
        if m.typ.kind == "type" and not m.is_constant:
            out[m.name] = (m.offset, m.typ.prim)
    return out
