/* Harness-side runtime: the same harness.c is (a) checked symbolically by cbmc and
 * (b) compiled natively (-DVERIF_NATIVE) to replay a solver trace against the real code. */
#ifndef HARNESS_RT_H
#define HARNESS_RT_H
#include "verif_rt.h"
typedef uint8_t u8; typedef uint16_t u16; typedef uint32_t u32; typedef uint64_t u64;
typedef int8_t i8; typedef int16_t i16; typedef int32_t i32; typedef int64_t i64;
int verif_aborted; long verif_abort_line; int verif_abort_count; int verif_oob;
#ifdef __CPROVER__
u8 nondet_u8(void); u16 nondet_u16(void); u32 nondet_u32(void); u64 nondet_u64(void);
i8 nondet_i8(void); i16 nondet_i16(void); i32 nondet_i32(void); i64 nondet_i64(void);
uint64_t verif_nondet_u64(void) { return nondet_u64(); }
# define IN(T, name) T name = nondet_##T()
# define VASSUME(c) __CPROVER_assume(c)
# define VASSERT(c, msg) __CPROVER_assert((c), msg)
# define CALL(stmt) do { stmt; } while (0)
static void verif_fill(unsigned char *p, size_t n) { for (size_t i = 0; i < n; i++) p[i] = nondet_u8(); }
# define IN_BYTES(name, N) unsigned char name[(N) ? (N) : 1]; verif_fill(name, (N))
# define VMALLOC(n) verif_malloc(n)
static unsigned char *verif_malloc(size_t n) { unsigned char *p = malloc(n); __CPROVER_assume(p != 0); return p; }
# define WITNESS_POINT() __CPROVER_assert(0, "witness: end of harness reachable")
#else
# include <stdio.h>
# include <setjmp.h>
extern jmp_buf verif_jb; extern int verif_failures;
uint64_t verif_in(const char *name); void verif_in_bytes(const char *name, unsigned char *p, size_t n);
uint64_t verif_nondet_u64(void);
# define IN(T, name) T name = (T)verif_in(#name)
# define IN_BYTES(name, N) unsigned char name[(N) ? (N) : 1]; verif_in_bytes(#name, name, (N))
# define VASSUME(c) do { if (!(c)) { fprintf(stderr, "VERIF: assumption violated: %s (line %d)\n", #c, __LINE__); exit(77); } } while (0)
# define VASSERT(c, msg) do { if (!(c)) { fprintf(stderr, "VERIF: ASSERTION FAILED: %s [%s] line %d\n", msg, #c, __LINE__); verif_failures++; } } while (0)
# define CALL(stmt) do { if (!setjmp(verif_jb)) { stmt; } } while (0)
# define VMALLOC(n) ((unsigned char *)malloc((n) ? (n) : 0))
# define WITNESS_POINT() do { fprintf(stderr, "VERIF: WITNESS REACHED failures=%d\n", verif_failures); } while (0)
#endif
static void verif_copy(unsigned char *d, const unsigned char *s, size_t n) { for (size_t i = 0; i < n; i++) d[i] = s[i]; }
/* little/big endian byte-wise reference decode/encode (independent of the library) */
static inline u64 ref_rd(const unsigned char *p, unsigned size, int be) {
  u64 v = 0;
  for (unsigned i = 0; i < 8; i++) if (i < size) v |= (u64)p[be ? size - 1 - i : i] << (8 * i);
  return v;
}
static inline unsigned char ref_byte(u64 v, unsigned size, int be, unsigned k) { /* k-th byte in memory order */
  unsigned sh = be ? size - 1 - k : k;
  return (unsigned char)(v >> (8 * sh));
}
static inline u64 ref_mask(unsigned size) { return size >= 8 ? ~(u64)0 : (((u64)1 << (8 * size)) - 1); }
static inline i64 ref_sext(u64 v, unsigned size) { unsigned s = 64 - 8 * size; return s ? ((i64)(v << s)) >> s : (i64)v; }
/* selector: symbolic by default; -DVERIF_WHICH=k fixes the arm (one solver query per arm) */
#ifdef VERIF_WHICH
# define SELECT(name) u32 name = (VERIF_WHICH)
#else
# define SELECT(name) IN(u32, name)
#endif
void harness(void);
#ifndef __CPROVER__
int main(void) { harness(); return verif_failures ? 1 : 0; }
#endif
#endif
