#!/usr/bin/env python3
"""Pipeline: /repo working tree -> sbeppc -> generated headers -> wrapper TU -> LLVM IR
-> C (ir2c) -> cbmc (back-end portfolio) -> verdict -> witness twin -> replay.

Nothing here is a verdict except the cbmc results; everything is rebuilt from the current
/repo working tree (the scratch slot is keyed by a content hash and is only a cache).
"""
import concurrent.futures as cf
import fcntl, hashlib, json, os, re, resource, shutil, subprocess, sys, tempfile, threading, time

ENGINE = os.path.dirname(os.path.abspath(__file__))
VERIF = os.path.dirname(ENGINE)
REPO = os.environ.get("VERIF_REPO", "/repo")
SCRATCH_ROOT = os.environ.get("VERIF_SCRATCH", os.path.join(os.environ.get("TMPDIR", "/tmp"), "sbepp-verif"))
NPROC = int(os.environ.get("VERIF_JOBS", str(os.cpu_count() or 8)))
MEM_LIMIT = int(os.environ.get("VERIF_MEM_GB", "12")) << 30
FMT_PREFIX = os.environ.get("VERIF_FMT_PREFIX", "/root/miniconda")

sys.path.insert(0, ENGINE)
import ir2c  # noqa: E402


class EngineError(Exception):
    """toolchain / translator failure: never a verdict"""


def sh(cmd, timeout=None, cwd=None, env=None, limit_mem=False, stdin=None):
    """run a command in its own process group; on timeout the WHOLE group is killed (cbmc runs under /usr/bin/time and may
    spawn an external SAT/SMT solver: killing only the direct child would leave them running)"""
    import signal
    def pre():
        os.setsid()
        if limit_mem:
            resource.setrlimit(resource.RLIMIT_AS, (MEM_LIMIT, MEM_LIMIT))
    t0 = time.time()
    p = subprocess.Popen(cmd, stdout=subprocess.PIPE, stderr=subprocess.PIPE, stdin=subprocess.PIPE if stdin is not None else None,
                         cwd=cwd, env=env, preexec_fn=pre)
    try:
        so, se = p.communicate(input=stdin, timeout=timeout)
        return p.returncode, so.decode("utf-8", "replace"), se.decode("utf-8", "replace"), time.time() - t0
    except subprocess.TimeoutExpired:
        try:
            os.killpg(p.pid, signal.SIGKILL)
        except OSError:
            pass
        try:
            so, se = p.communicate(timeout=10)
        except Exception:
            so, se = b"", b""
        return -9, so.decode("utf-8", "replace"), "TIMEOUT", time.time() - t0


def file_hash(paths):
    h = hashlib.sha256()
    for p in sorted(paths):
        h.update(p.encode()); h.update(b"\0")
        try:
            with open(p, "rb") as f: h.update(f.read())
        except OSError:
            h.update(b"<missing>")
    return h.hexdigest()


def tree_files(root, exts=None):
    out = []
    for d, _, fs in os.walk(root):
        if "/.git" in d or "/_build" in d: continue
        for f in fs:
            if exts is None or os.path.splitext(f)[1] in exts: out.append(os.path.join(d, f))
    return out


def repo_hash():
    files = tree_files(os.path.join(REPO, "sbepp")) + tree_files(os.path.join(REPO, "sbeppc")) + \
        tree_files(os.path.join(REPO, "cmake")) + [os.path.join(REPO, "CMakeLists.txt")]
    return file_hash(files)


def engine_hash():
    return file_hash([os.path.join(ENGINE, f) for f in ("ir2c.py", "verif_rt.h", "native_rt.c", "native_handler.cpp")])[:12]


_slot_lock = threading.Lock()


class Slot:
    """Scratch directory for one /repo content hash (outside /repo and /verif)."""

    def __init__(self):
        self.hash = repo_hash()
        os.makedirs(SCRATCH_ROOT, exist_ok=True)
        self.dir = os.path.join(SCRATCH_ROOT, self.hash[:20])
        lock = open(os.path.join(SCRATCH_ROOT, ".lock"), "w")
        fcntl.flock(lock, fcntl.LOCK_EX)
        try:
            # a different hash means /repo changed: drop stale slots (disk is limited); keep slots in use
            for d in os.listdir(SCRATCH_ROOT):
                p = os.path.join(SCRATCH_ROOT, d)
                if d.startswith(".") or p == self.dir or not os.path.isdir(p): continue
                inuse = os.path.join(p, ".inuse")
                try:
                    fresh = os.path.exists(inuse) and time.time() - os.path.getmtime(inuse) < 6 * 3600
                    busy = False
                    if fresh:
                        f = open(inuse, "r")
                        try:
                            fcntl.flock(f, fcntl.LOCK_EX | fcntl.LOCK_NB)
                        except OSError:
                            busy = True
                        f.close()
                    if not busy: shutil.rmtree(p, ignore_errors=True)
                except OSError:
                    pass
            os.makedirs(self.dir, exist_ok=True)
            self._inuse = open(os.path.join(self.dir, ".inuse"), "a+")
            fcntl.flock(self._inuse, fcntl.LOCK_SH)
            os.utime(os.path.join(self.dir, ".inuse"))
        finally:
            fcntl.flock(lock, fcntl.LOCK_UN); lock.close()

    def path(self, *a):
        p = os.path.join(self.dir, *a)
        os.makedirs(os.path.dirname(p), exist_ok=True)
        return p

    def locked(self, name):
        f = open(self.path("locks", name), "w")
        fcntl.flock(f, fcntl.LOCK_EX)
        return f

    # ---------------------------------------------------------------- sbeppc
    def sbeppc(self):
        exe = self.path("sbeppc", "sbeppc")
        lk = self.locked("sbeppc")
        try:
            if os.path.exists(exe): return exe
            src = os.path.join(REPO, "sbeppc/src/sbepp/sbeppc")
            bi = self.path("sbeppc", "build_info.cpp")
            open(bi, "w").write(open(os.path.join(src, "build_info.cpp.in")).read().replace("@sbepp_VERSION@", "verif"))
            cmd = ["g++", "-std=c++17", "-O0", "-DNDEBUG", "-w", "-I" + os.path.join(REPO, "sbeppc/src"), "-I" + os.path.join(REPO, "sbepp/src"),
                   "-I" + FMT_PREFIX + "/include", os.path.join(src, "main.cpp"), bi, "-o", exe + ".tmp",
                   "-L" + FMT_PREFIX + "/lib", "-Wl,-rpath," + FMT_PREFIX + "/lib", "-lfmt", "-lpugixml"]
            rc, out, err, dt = sh(cmd, timeout=900)
            if rc != 0:
                raise EngineError("sbeppc does not build from %s:\n%s" % (REPO, err[-3000:]))
            os.rename(exe + ".tmp", exe)
            return exe
        finally:
            lk.close()

    def generate(self, xml_path):
        """run the rebuilt sbeppc; returns (rc, output, include_dir)"""
        key = file_hash([xml_path])[:16]
        out = self.path("gen", key, "x")[:-2]
        done = os.path.join(out, ".done")
        lk = self.locked("gen-" + key)
        try:
            if os.path.exists(done):
                d = json.load(open(done)); return d["rc"], d["out"], out
            exe = self.sbeppc()
            rc, so, se, dt = sh([exe, "--output-dir", out, xml_path], timeout=120)
            json.dump({"rc": rc, "out": (so + se)[-4000:]}, open(done, "w"))
            return rc, (so + se)[-4000:], out
        finally:
            lk.close()

    # ---------------------------------------------------------------- lowering
    def lower_flags(self, std, mode, exceptions=False, extra=(), inline_all=True):
        fl = ["-std=c++" + std, "-O1", "-fno-vectorize", "-fno-slp-vectorize", "-fno-unroll-loops"] + (["-mllvm", "-inline-threshold=100000"] if inline_all else []) + [
              "-fsanitize=signed-integer-overflow,shift,integer-divide-by-zero,unreachable,return,bool", "-fsanitize-trap=all",
              "-DSBEPP_VERIF", "-w", "-I" + os.path.join(REPO, "sbepp/src")]
        if not exceptions: fl.append("-fno-exceptions")
        fl.append({"checked": "-DSBEPP_ENABLE_ASSERTS_WITH_HANDLER", "unchecked": "-DSBEPP_DISABLE_ASSERTS"}[mode])
        return fl + list(extra)

    def lower(self, name, cpp_text, std="17", mode="unchecked", incs=(), exceptions=False, extra=(), extern_map=None, allow_opaque=False, inline_all=True):
        """wrapper TU -> IR -> C.  returns dict(c=path, h=path, cpp=path, info=..., inlined=[...])"""
        flags = self.lower_flags(std, mode, exceptions, list(extra) + ["-I" + i for i in incs], inline_all)
        key = hashlib.sha256((cpp_text + "\0" + " ".join(flags) + json.dumps(extern_map or {}, sort_keys=True) + engine_hash()).encode()).hexdigest()[:16]
        base = self.path("units", "%s-%s" % (re.sub(r"\W", "_", name), key), "x")[:-2]
        os.makedirs(base, exist_ok=True)
        meta = os.path.join(base, "meta.json")
        cpp = os.path.join(base, "w.cpp")
        if os.path.exists(meta):
            return json.load(open(meta))
        open(cpp, "w").write(cpp_text)
        ll = os.path.join(base, "w.ll")
        rc, so, se, dt = sh(["clang++-14"] + flags + ["-Rpass=inline", "-S", "-emit-llvm", cpp, "-o", ll], timeout=600)
        if rc != 0:
            return {"error": "lowering failed", "stderr": se[-6000:], "cpp": cpp, "flags": flags}
        inlined = sorted(set(re.findall(r"remark: '?([^']+?)'? inlined into", se)))
        try:
            c, h, info = ir2c.translate(open(ll).read(), extern_map)
        except ir2c.Err as e:
            return {"error": "ir2c: %s" % e, "cpp": cpp, "flags": flags}
        if info.get("opaque_globals") and not allow_opaque:
            return {"error": "ir2c: global(s) with an initializer the translator cannot encode: %s" % info["opaque_globals"], "cpp": cpp, "flags": flags}
        cp, hp = os.path.join(base, "w.c"), os.path.join(base, "w.h")
        open(cp, "w").write(c); open(hp, "w").write(h)
        d = {"c": cp, "h": hp, "cpp": cpp, "ll": ll, "dir": base, "info": info, "inlined": inlined, "flags": flags, "std": std, "mode": mode,
             "incs": list(incs), "lower_s": dt}
        json.dump(d, open(meta, "w"))
        return d

    def native_object(self, unit, compiler="g++", sanitize=True):
        """the *real* wrapper TU compiled natively (hooks off) for replay"""
        o = os.path.join(unit["dir"], "real-%s%s.o" % (compiler.replace("+", "p"), "-san" if sanitize else ""))
        if os.path.exists(o): return o
        lk = self.locked("obj-" + hashlib.sha256(o.encode()).hexdigest()[:16])
        try:
            return self._native_object(unit, compiler, sanitize, o)
        finally:
            lk.close()

    def _native_object(self, unit, compiler, sanitize, o):
        if os.path.exists(o): return o
        fl = [compiler, "-std=c++" + unit["std"].replace("2b", "2b" if compiler.startswith("clang") else "23"), "-O1", "-g", "-w", "-I" + os.path.join(REPO, "sbepp/src")]
        fl += ["-I" + i for i in unit["incs"]]
        fl.append({"checked": "-DSBEPP_ENABLE_ASSERTS_WITH_HANDLER", "unchecked": "-DSBEPP_DISABLE_ASSERTS"}[unit["mode"]])
        fl += [f for f in unit["flags"] if f.startswith("-DVERIF_") or f.startswith("-DW_")]
        hookopts = [f for f in unit["flags"] if f.startswith("-DSBEPP_VERIF_") or f.startswith("-D__builtin_is_constant_evaluated")]
        if hookopts: fl += ["-DSBEPP_VERIF"] + hookopts   # a unit lowered with a behaviour-selecting hook (H3) is replayed with the same hook (native_handler.cpp defines sbepp_verif_touch)
        if sanitize: fl += ["-fsanitize=address,undefined", "-fno-sanitize-recover=undefined", "-fno-omit-frame-pointer"]
        rc, so, se, dt = sh(fl + ["-c", unit["cpp"], "-o", o + ".tmp"], timeout=600)
        if rc != 0: raise EngineError("native build of wrapper failed: " + se[-3000:])
        os.rename(o + ".tmp", o)
        return o


# ------------------------------------------------------------------------- cbmc
BACKENDS = {
    "minisat": [],
    "cadical": ["--sat-solver", "cadical"],
    "kissat": ["--external-sat-solver", "kissat"],
    "z3": ["--z3"],
}
BASE_FLAGS = ["--unwinding-assertions", "--no-malloc-may-fail", "--drop-unused-functions", "--object-bits", "10"]
# --pointer-overflow-check is not used: forming `ptr + offset` beyond the object is how the library's own cursor/size checks are
# written (the comparison happens before any access); such findings never reproduce under a sanitizer and are not property violations
CHECK_FLAGS = ["--undefined-shift-check"]
BIG_UNWIND = 400


class Harness:
    def __init__(self, name, text, units, unwind=4, track=False, backends=("minisat",), cap=None, desc="", bounds=None,
                 expect="proved", defines=(), extra_flags=(), meta=None, witness=True):
        self.name, self.text, self.units = name, text, units
        self.unwind, self.track, self.backends, self.cap = unwind, track, list(backends), cap
        self.desc, self.bounds, self.expect = desc, bounds or {}, expect
        self.defines, self.extra_flags, self.meta, self.witness = list(defines), list(extra_flags), meta or {}, witness
        self.dir = None


def _loops(files, defines, cwd):
    rc, so, se, dt = sh(["cbmc"] + files + ["--function", "harness", "--show-loops"] + ["-D" + d for d in defines] + ["-I", ENGINE], timeout=120, cwd=cwd)
    loops = re.findall(r"^Loop ([\w$.]+):\n\s+file (\S+) line (\d+) function (\S+)", so, re.M)
    return loops, (so + se if rc != 0 else "")


def run_cbmc(h, witness=False, trace=False, backend=None, cap=60):
    files = [os.path.join(h.dir, "harness.c")] + [u["c"] for u in h.units]
    defines = list(h.defines) + (["WITNESS"] if witness else []) + (["VERIF_TRACK"] if h.track else [])
    big = int(h.meta.get("big_unwind", BIG_UNWIND))   # loops of the harness / reference model themselves (buffer fill, copy, comparison): bounded by the buffer size
    uset = ["harness.%d:%d" % (k, big) for k in range(48)] + ["%s.0:%d" % (f, big) for f in ("verif_fill", "verif_copy", "ref_rd")]
    uset += ["%s:%d" % (l, big) for l in h.meta.get("big_loops", [])]
    uset += ["%s:%d" % (l, k) for l, k in sorted(h.meta.get("bumped_loops", {}).items())]
    cmd = ["cbmc"] + files + ["--function", "harness", "--unwind", str(h.unwind)] + BASE_FLAGS + ["-I", ENGINE]
    if uset: cmd += ["--unwindset", ",".join(uset)]
    cmd += ["-D" + d for d in defines]
    if h.track: cmd += ["--no-pointer-check", "--no-bounds-check", "--no-pointer-primitive-check"]
    else: cmd += CHECK_FLAGS
    cmd += h.extra_flags
    cmd += BACKENDS[backend or h.backends[0]]
    if trace: cmd += ["--trace", "--json-ui"]
    rc, so, se, dt = sh(["/usr/bin/time", "-f", "VERIF_RSS_KB=%M"] + cmd, timeout=cap, cwd=h.dir, limit_mem=True)
    rss = 0
    m = re.search(r"VERIF_RSS_KB=(\d+)", se)
    if m: rss = int(m.group(1))
    res = {"s": round(dt, 2), "rss_kb": rss, "backend": backend or h.backends[0], "cmd": " ".join(cmd)}
    if rc == -9:
        res["verdict"] = "INCONCLUSIVE"; res["detail"] = "timeout %ss" % cap; return res
    if trace:
        res["raw"] = so
        res["verdict"] = "REFUTED" if '"cProverStatus": "failure"' in so else ("PROVED" if '"cProverStatus": "success"' in so else "ERROR")
        return res
    failed = re.findall(r"^\[([^\]]+)\] (.*): FAILURE$", so, re.M)
    n_props = len(re.findall(r": (?:SUCCESS|FAILURE)$", so, re.M))
    res["checked_properties"] = n_props
    if "VERIFICATION SUCCESSFUL" in so:
        res["verdict"] = "PROVED"
    elif "VERIFICATION FAILED" in so:
        res["verdict"] = "REFUTED"; res["failed"] = [{"id": a, "text": b} for a, b in failed]
    else:
        res["verdict"] = "ERROR" if rc not in (0, 10) or "error" in (so + se).lower() else "INCONCLUSIVE"
        res["detail"] = (so[-1500:] + se[-1500:])
        if "out of memory" in (so + se).lower() or "bad_alloc" in (so + se): res["verdict"] = "INCONCLUSIVE"
    return res


def portfolio(h, witness=False, caps=None):
    """try back ends in the harness' order; first definitive verdict wins"""
    last = None
    tried = []
    for i, b in enumerate(h.backends):
        cap = (caps or {}).get(b) or h.cap or 60
        r = run_cbmc(h, witness=witness, backend=b, cap=cap)
        tried.append({"backend": b, "verdict": r["verdict"], "s": r["s"]})
        r["tried"] = tried
        if r["verdict"] in ("PROVED", "REFUTED"):
            return r
        last = r
    return last


def extract_inputs(raw_json):
    """inputs = last value assigned to each harness-level input variable in the json trace"""
    try:
        data = json.loads(raw_json)
    except Exception:
        return {}, None
    vals = {}
    failed = None
    for item in data:
        if not isinstance(item, dict) or "result" not in item: continue
        for r in item["result"]:
            if r.get("status") != "FAILURE" or "trace" not in r: continue
            if failed is None:
                failed = {"id": r.get("property"), "text": r.get("description")}
                for st in r["trace"]:
                    if st.get("stepType") != "assignment" or st.get("hidden"): continue
                    lhs = st.get("lhs", ""); v = st.get("value", {})
                    fn = (st.get("sourceLocation") or {}).get("function")
                    if "binary" not in v: continue
                    m = re.match(r"^(\w+)\[(\d+)l?\]$", lhs)
                    if m and fn == "verif_fill":
                        # harness input arrays are filled by verif_fill(); later writes (by the code under test) are not inputs
                        vals.setdefault("%s[%s]" % (m.group(1), m.group(2)), int(v["binary"], 2))
                    elif re.match(r"^[A-Za-z_]\w*$", lhs) and fn == "harness" and st.get("assignmentType") == "variable":
                        vals.setdefault(lhs, int(v["binary"], 2))   # first assignment = the nondet input
    return vals, failed


class Runner:
    """decides a list of harnesses in parallel; handles witness twins and replay"""

    def __init__(self, slot, prop, tier, workdir=None):
        self.slot, self.prop, self.tier = slot, prop, tier
        self.work = workdir or slot.path("harness", prop, "x")[:-2]
        os.makedirs(self.work, exist_ok=True)
        self.results = []
        self.solver_s = 0.0
        self.queries = 0
        self.peak_rss = 0
        self.lock = threading.Lock()

    def prepare(self, h):
        h.dir = os.path.join(self.work, re.sub(r"\W", "_", h.name))
        os.makedirs(h.dir, exist_ok=True)
        open(os.path.join(h.dir, "harness.c"), "w").write(h.text)

    def decide(self, h):
        self.prepare(h)
        cap = h.cap or (60 if self.tier == "quick" else 600)
        h.cap = cap
        r = portfolio(h, witness=h.witness)
        # loops with a constant trip count above the default bound (e.g. the 8-byte reverse_copy of the C++20 path): raise the bound
        # of exactly those loops and re-run; the unwinding assertions stay on, so a loop that is really unbounded still fails
        rounds = 0
        while (r["verdict"] == "REFUTED" and not h.meta.get("unwind_is_property") and rounds < 3
               and any(".unwind." in f["id"] for f in r.get("failed") or [])):
            rounds += 1
            bl = h.meta.setdefault("bumped_loops", {})
            for f in r["failed"]:
                if ".unwind." in f["id"]: bl[f["id"].replace(".unwind.", ".")] = 18 * rounds
            r2 = portfolio(h, witness=h.witness)
            r2["tried"] = (r.get("tried") or []) + (r2.get("tried") or [])
            r = r2
        out = {"harness": h.name, "desc": h.desc, "bounds": h.bounds, "unwind": h.unwind, "verdict": r["verdict"], "s": r["s"],
               "backend": r.get("backend"), "rss_kb": r.get("rss_kb", 0), "checked_properties": r.get("checked_properties", 0),
               "tried": r.get("tried"), "meta": h.meta, "expect": h.expect}
        q = len(r.get("tried") or [1]); s = sum(t["s"] for t in r.get("tried") or [])
        if h.witness and r["verdict"] in ("PROVED", "REFUTED"):
            # one query decides both: every real assertion must hold and the final witness assertion must fail (reachability)
            fw = r.get("failed") or []
            real = [f for f in fw if "witness: end of harness reachable" not in f["text"]]
            if r["verdict"] == "PROVED":
                out["verdict"] = "ERROR"; out["detail"] = "witness assertion not refuted: harness is vacuous (assumptions unsatisfiable or end unreachable)"
            elif not real:
                out["verdict"] = "PROVED"; out["witness"] = "reached"
            else:
                out["verdict"] = "REFUTED"; r["failed"] = real
                if len(real) == len(fw): out["witness_note"] = "witness point not reached"
        if out["verdict"] == "REFUTED":
            out["failed"] = r.get("failed")
            tr = run_cbmc(h, trace=True, backend=r["backend"], cap=cap * 2)
            q += 1; s += tr["s"]
            vals, failed = extract_inputs(tr.get("raw", ""))
            out["inputs"] = vals; out["first_failed"] = failed
            out["dir"] = h.dir
        elif r["verdict"] in ("ERROR", "INCONCLUSIVE"):
            out["detail"] = r.get("detail", "")
        with self.lock:
            self.queries += q; self.solver_s += s; self.peak_rss = max(self.peak_rss, out["rss_kb"])
            self.results.append(out)
        return out

    def run(self, harnesses):
        with cf.ThreadPoolExecutor(max_workers=NPROC) as ex:
            return list(ex.map(self.decide, harnesses))


# ------------------------------------------------------------------------- native replay
def native_replay(slot, h, inputs, units, compiler="g++", sanitize=True, witness=False, outdir=None):
    """compile harness.c natively against the REAL wrapper object(s) and run it on `inputs`.
    returns dict(rc, out) ; rc 0 = all assertions passed, 1 = assertion failed, 77 = assumption violated,
    other = sanitizer / crash"""
    d = outdir or h.dir
    inp = os.path.join(d, "inputs%s.txt" % ("-w" if witness else ""))
    with open(inp, "w") as f:
        for k, v in sorted(inputs.items()): f.write("%s %d\n" % (k, v))
    objs = [slot.native_object(u, compiler, sanitize) for u in units]
    exe = os.path.join(d, "replay-%s%s" % (compiler.replace("+", "p"), "-w" if witness else ""))
    cc = "gcc" if compiler == "g++" else "clang-14"
    san = ["-fsanitize=address,undefined", "-fno-sanitize-recover=undefined"] if sanitize else []
    defs = ["-DVERIF_NATIVE"] + ["-D" + x for x in h.defines] + (["-DWITNESS"] if witness else [])
    ho = os.path.join(d, "harness-%s.o" % compiler.replace("+", "p"))
    rc, so, se, dt = sh([cc, "-O0", "-g", "-w", "-I", ENGINE] + defs + san + ["-c", os.path.join(d, "harness.c"), "-o", ho], timeout=300)
    if rc != 0: raise EngineError("native harness build failed: " + se[-2000:])
    tag = compiler.replace("+", "p") + ("-san" if sanitize else "")
    rt = slot.path("native", "native_rt-%s-%s.o" % (tag, engine_hash()))
    hd = slot.path("native", "native_handler-%s-%s.o" % (tag, engine_hash()))
    lk = slot.locked("native-" + tag)
    try:
        if not os.path.exists(rt):
            rc, so, se, dt = sh([cc, "-O0", "-g", "-w", "-I", ENGINE] + san + ["-c", os.path.join(ENGINE, "native_rt.c"), "-o", rt + ".tmp"], timeout=300)
            if rc != 0: raise EngineError("native rt build failed: " + se[-2000:])
            os.rename(rt + ".tmp", rt)
        if not os.path.exists(hd):
            rc, so, se, dt = sh([compiler, "-O0", "-g", "-w", "-c", os.path.join(ENGINE, "native_handler.cpp"), "-o", hd + ".tmp"] + san, timeout=300)
            if rc != 0: raise EngineError("native handler build failed: " + se[-2000:])
            os.rename(hd + ".tmp", hd)
    finally:
        lk.close()
    rc, so, se, dt = sh([compiler, "-o", exe, ho, rt, hd] + objs + san, timeout=300)
    if rc != 0: raise EngineError("native link failed: " + se[-3000:])
    env = dict(os.environ, VERIF_INPUTS=inp, ASAN_OPTIONS="detect_leaks=0:abort_on_error=0:exitcode=66", UBSAN_OPTIONS="print_stacktrace=1:exitcode=67")
    rc, so, se, dt = sh([exe], timeout=120, env=env)
    with open(os.path.join(d, "replay.sh"), "w") as f:
        f.write("#!/bin/sh\n# replays the solver's counterexample against the real (untranslated) code\nVERIF_INPUTS=%s ASAN_OPTIONS=detect_leaks=0 %s\n" % (inp, exe))
    os.chmod(os.path.join(d, "replay.sh"), 0o755)
    return {"rc": rc, "out": (so + se)[-4000:], "exe": exe, "inputs_file": inp}
