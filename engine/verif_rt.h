/* Runtime support shared by translated C (ir2c output) and harnesses.
 * Three build modes:
 *   __CPROVER__                 : symbolic (cbmc)
 *   VERIF_NATIVE                : native execution (replay of a solver trace against the
 *                                 translated C or against the real g++/clang++ wrapper object)
 */
#ifndef VERIF_RT_H
#define VERIF_RT_H
#include <stdint.h>
#include <stddef.h>
#include <string.h>
#include <stdlib.h>

extern int verif_aborted;      /* 1: sbepp::assertion_failed was called; 2: C++ exception in flight */
extern long verif_abort_line;  /* line argument of assertion_failed */
extern int verif_abort_count;
extern int verif_oob;          /* set in VERIF_TRACK mode by any access outside a live object */
uint64_t verif_nondet_u64(void);

static inline float u32_as_float(uint32_t u){ float f; memcpy(&f,&u,4); return f; }
static inline double u64_as_double(uint64_t u){ double f; memcpy(&f,&u,8); return f; }
static inline uint32_t float_as_u32(float f){ uint32_t u; memcpy(&u,&f,4); return u; }
static inline uint64_t double_as_u64(double f){ uint64_t u; memcpy(&u,&f,8); return u; }

#define __VERIF_ASSERT_FAILED(line) (verif_aborted = 1, verif_abort_count++, verif_abort_line = (long)(line))

#ifdef __CPROVER__
# define __VERIF_UNREACHABLE() do { __CPROVER_assert(0, "IR unreachable reached"); __CPROVER_assume(0); } while (0)
# define __VERIF_UBTRAP(k) do { __CPROVER_assert(0, "UB trap (ubsan kind " #k ")"); __CPROVER_assume(0); } while (0)
# ifdef VERIF_TRACK
/* accesses are recorded instead of checked by cbmc (run with --no-pointer-check) */
static inline unsigned char *verif_acc_r(unsigned char *p, size_t n){ if (n && !__CPROVER_r_ok(p, n)) verif_oob = 1; return p; }
static inline unsigned char *verif_acc_w(unsigned char *p, size_t n){ if (n && !__CPROVER_w_ok(p, n)) verif_oob = 1; return p; }
#  define __VERIF_LD(T,p) (*(T*)verif_acc_r((unsigned char*)(p), sizeof(T)))
#  define __VERIF_ST(T,p,v) (*(T*)verif_acc_w((unsigned char*)(p), sizeof(T)) = (v))
#  define __VERIF_TOUCH(p,n) ((void)verif_acc_r((unsigned char*)(p), (n)))
#  define __VERIF_MEMCPY(d,s,n) do { size_t n_ = (n); unsigned char *d_ = verif_acc_w((d), n_), *s_ = verif_acc_r((s), n_); if (!verif_oob) memcpy(d_, s_, n_); } while (0)
#  define __VERIF_MEMMOVE(d,s,n) do { size_t n_ = (n); unsigned char *d_ = verif_acc_w((d), n_), *s_ = verif_acc_r((s), n_); if (!verif_oob) memmove(d_, s_, n_); } while (0)
#  define __VERIF_MEMSET(d,c,n) do { size_t n_ = (n); unsigned char *d_ = verif_acc_w((d), n_); if (!verif_oob) memset(d_, (c), n_); } while (0)
# else
#  define __VERIF_LD(T,p) (*(T*)(p))
#  define __VERIF_ST(T,p,v) (*(T*)(p) = (v))
#  define __VERIF_TOUCH(p,n) __CPROVER_assert((n) == 0 || __CPROVER_r_ok((p), (n)), "library access (touch hook) inside a live object")
#  define __VERIF_MEMCPY(d,s,n) memcpy((d),(s),(n))
#  define __VERIF_MEMMOVE(d,s,n) memmove((d),(s),(n))
#  define __VERIF_MEMSET(d,c,n) memset((d),(c),(n))
# endif
#else
# include <stdio.h>
# define __VERIF_UNREACHABLE() do { fprintf(stderr, "VERIF: IR unreachable reached\n"); exit(3); } while (0)
# define __VERIF_UBTRAP(k) do { fprintf(stderr, "VERIF: UB trap %d\n", (int)(k)); exit(3); } while (0)
# define __VERIF_LD(T,p) (*(T*)(p))
# define __VERIF_ST(T,p,v) (*(T*)(p) = (v))
# define __VERIF_TOUCH(p,n) ((void)0)
# define __VERIF_MEMCPY(d,s,n) memcpy((d),(s),(n))
# define __VERIF_MEMMOVE(d,s,n) memmove((d),(s),(n))
# define __VERIF_MEMSET(d,c,n) memset((d),(c),(n))
#endif

/* small library models (bounded by the harness unwind) */
static inline unsigned char *verif_memchr(unsigned char *s, int c, size_t n){
  for (size_t i = 0; i < n; i++) if (__VERIF_LD(unsigned char, s + i) == (unsigned char)c) return s + i;
  return (unsigned char *)0;
}
static inline uint64_t verif_strlen(unsigned char *s){
  uint64_t i = 0; while (__VERIF_LD(unsigned char, s + i) != 0) i++; return i;
}
static inline int verif_memcmp(unsigned char *a, unsigned char *b, size_t n){
  for (size_t i = 0; i < n; i++) { unsigned char x = __VERIF_LD(unsigned char, a + i), y = __VERIF_LD(unsigned char, b + i); if (x != y) return x < y ? -1 : 1; }
  return 0;
}
#define __VERIF_MEMCHR(s,c,n) verif_memchr((s),(int)(c),(n))
#define __VERIF_STRLEN(s) verif_strlen((s))
#define __VERIF_MEMCMP(a,b,n) ((uint32_t)verif_memcmp((a),(b),(n)))
#endif
