// native definition of the client-supplied assertion handler: record and unwind to the harness' CALL()
#include <csetjmp>
#include <cstddef>
extern "C" { extern int verif_aborted; extern long verif_abort_line; extern int verif_abort_count; extern jmp_buf verif_jb; }
namespace sbepp {
[[noreturn]] void assertion_failed(char const*, char const*, char const*, long line) {
    verif_aborted = 1; verif_abort_line = line; verif_abort_count++;
    std::longjmp(verif_jb, 1);
}
}
extern "C" void sbepp_verif_touch(const void*, std::size_t) noexcept {}
