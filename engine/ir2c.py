#!/usr/bin/env python3
"""Prototype LLVM-14 textual IR -> C translator (typed pointers).
All pointers become `unsigned char *`; all integers `uintN_t`; struct values
(first-class aggregates) become C structs; memory is accessed through casts.
"""
import re, sys

class Err(Exception):
    pass

# ---------------------------------------------------------------- types
class Ty:
    pass

class IntTy(Ty):
    def __init__(s, bits): s.bits = bits
    def __repr__(s): return f"i{s.bits}"
    def size(s): return max(1, (s.bits + 7) // 8) if s.bits not in (1,) else 1
    def align(s): return min(8, s.size())
    def c(s):
        if s.bits == 1: return "_Bool"
        for b in (8, 16, 32, 64):
            if s.bits <= b: return f"uint{b}_t"
        if s.bits <= 128: return "unsigned __int128"
        raise Err(f"int width {s.bits}")
    def cs(s):
        for b in (8, 16, 32, 64):
            if s.bits <= b: return f"int{b}_t"
        return "__int128"

class FloatTy(Ty):
    def __init__(s, name): s.name = name
    def __repr__(s): return s.name
    def size(s): return 4 if s.name == "float" else 8
    def align(s): return s.size()
    def c(s): return s.name

class PtrTy(Ty):
    def __init__(s, pointee): s.pointee = pointee
    def __repr__(s): return f"{s.pointee}*"
    def size(s): return 8
    def align(s): return 8
    def c(s): return "unsigned char *"

class VoidTy(Ty):
    def __repr__(s): return "void"
    def c(s): return "void"

class ArrTy(Ty):
    def __init__(s, n, el): s.n, s.el = n, el
    def __repr__(s): return f"[{s.n} x {s.el}]"
    def size(s): return s.n * s.el.size()
    def align(s): return s.el.align()

class StructTy(Ty):
    def __init__(s, fields, packed=False, name=None):
        s.fields, s.packed, s.name = fields, packed, name
    def __repr__(s): return s.name or "{" + ",".join(map(repr, s.fields)) + "}"
    def layout(s):
        off, offs, al = 0, [], 1
        for f in s.fields:
            a = 1 if s.packed else f.align()
            al = max(al, a)
            off = (off + a - 1) // a * a
            offs.append(off)
            off += f.size()
        size = (off + al - 1) // al * al
        return offs, size, al
    def size(s): return s.layout()[1]
    def align(s): return s.layout()[2]
    def c(s):
        return "struct agg_" + "_".join(re.sub(r"\W", "", f.c().replace("unsigned char *", "p")) for f in s.fields)

class FnTy(Ty):
    def __init__(s, ret, params): s.ret, s.params = ret, params
    def __repr__(s): return f"{s.ret}(...)"
    def size(s): return 1
    def align(s): return 1

class Mod:
    def __init__(s):
        s.named = {}      # %struct.name -> StructTy (filled lazily)
        s.named_src = {}
        s.funcs = {}
        s.decls = {}
        s.globals = {}
        s.aggs = {}

# ---------------------------------------------------------------- type parser
class P:
    """tiny cursor over a string"""
    def __init__(s, t, mod): s.t, s.i, s.mod = t, 0, mod
    def ws(s):
        while s.i < len(s.t) and s.t[s.i] in " \t": s.i += 1
    def peek(s, k=1): s.ws(); return s.t[s.i:s.i + k]
    def eat(s, lit):
        s.ws()
        if s.t.startswith(lit, s.i):
            s.i += len(lit); return True
        return False
    def expect(s, lit):
        if not s.eat(lit): raise Err(f"expected {lit!r} at {s.t[s.i:s.i+40]!r} in {s.t!r}")
    def rx(s, pat):
        s.ws()
        m = re.compile(pat).match(s.t, s.i)
        if not m: return None
        s.i = m.end(); return m
    def rest(s): s.ws(); return s.t[s.i:]
    def ty(s):
        s.ws()
        m = s.rx(r"i(\d+)\b")
        if m: t = IntTy(int(m.group(1)))
        elif s.eat("void"): t = VoidTy()
        elif s.rx(r"float\b"): t = FloatTy("float")
        elif s.rx(r"double\b"): t = FloatTy("double")
        elif s.rx(r"x86_fp80\b"): t = ArrTy(16, IntTy(8))
        elif s.rx(r"(metadata|token|label)\b"): t = VoidTy()
        elif s.eat("ptr"): t = PtrTy(IntTy(8))
        elif s.peek() == "[":
            s.expect("["); n = int(s.rx(r"\d+").group(0)); s.expect("x"); el = s.ty(); s.expect("]")
            t = ArrTy(n, el)
        elif s.peek(2) == "<{":
            s.expect("<{"); fs = s.tylist("}>"); t = StructTy(fs, packed=True)
        elif s.peek() == "{":
            s.expect("{"); fs = s.tylist("}"); t = StructTy(fs)
        elif s.peek() == "%":
            m = s.rx(r'%("(?:[^"\\]|\\.)*"|[\w.$-]+)')
            t = s.mod_named(m.group(0))
        else:
            raise Err(f"type? {s.t[s.i:s.i+40]!r}")
        while True:
            s.ws()
            if s.eat("*"): t = PtrTy(t)
            elif s.peek() == "(" :
                # function type
                s.expect("("); depth = 1
                while depth:
                    ch = s.t[s.i]; s.i += 1
                    if ch == "(": depth += 1
                    elif ch == ")": depth -= 1
                t = FnTy(t, None)
            else: break
        return t
    def tylist(s, close):
        fs = []
        if s.eat(close): return fs
        while True:
            fs.append(s.ty())
            if s.eat(close): return fs
            s.expect(",")
    def mod_named(s, name):
        m = s.mod
        if name not in m.named:
            if name not in m.named_src: raise Err(f"unknown named type {name}")
            st = StructTy([], name=name); m.named[name] = st
            src = m.named_src[name]
            if src.strip() == "opaque": pass
            else:
                p = P(src, m); inner = p.ty()
                st.fields, st.packed = inner.fields, inner.packed
        return m.named[name]

ATTR_WORDS = set("""noundef nonnull readonly readnone writeonly nocapture noalias signext zeroext
 returned immarg inreg nofree nest swiftself swifterror""".split())

def skip_param_attrs(p):
    while True:
        p.ws()
        m = p.rx(r"(align|dereferenceable|dereferenceable_or_null)\((\d+)\)|align \d+")
        if m: continue
        m = p.rx(r"(sret|byval|byref|inalloca|preallocated|elementtype)\(")
        if m:
            p.i -= 1; p.expect("("); depth = 1
            while depth:
                ch = p.t[p.i]; p.i += 1
                if ch == "(": depth += 1
                elif ch == ")": depth -= 1
            continue
        m = p.rx(r"[a-z_]+\b")
        if m:
            if m.group(0) in ATTR_WORDS: continue
            p.i = m.start()
        return

# ---------------------------------------------------------------- function translation
class Fn:
    def __init__(s, mod, name, ret, params):
        s.mod, s.name, s.ret, s.params = mod, name, ret, params
        s.blocks = []   # (label, [lines])
        s.vty = {}      # value name -> Ty

def cname(n):
    n = n.lstrip("@%")
    if n.startswith('"'): n = n[1:-1]
    return re.sub(r"\W", "_", n)

def vname(n):
    return "v_" + cname(n)

INT_BIN = {"add": "+", "sub": "-", "mul": "*", "and": "&", "or": "|", "xor": "^",
           "udiv": "/", "urem": "%", "shl": "<<", "lshr": ">>"}
ICMP = {"eq": "==", "ne": "!=", "ugt": ">", "uge": ">=", "ult": "<", "ule": "<=",
        "sgt": ">", "sge": ">=", "slt": "<", "sle": "<="}
FCMP = {"oeq": "({a} == {b})", "one": "({a} < {b} || {a} > {b})", "ogt": "({a} > {b})", "oge": "({a} >= {b})",
        "olt": "({a} < {b})", "ole": "({a} <= {b})", "ord": "({a} == {a} && {b} == {b})",
        "uno": "({a} != {a} || {b} != {b})", "ueq": "(!({a} < {b} || {a} > {b}))", "une": "({a} != {b})",
        "ugt": "(!({a} <= {b}))", "uge": "(!({a} < {b}))", "ult": "(!({a} >= {b}))", "ule": "(!({a} > {b}))",
        "true": "1", "false": "0"}

class Tr:
    def __init__(s, mod, opts):
        s.mod, s.opts = mod, opts
        s.out = []
        s.used_aggs = {}

    # --- operand parsing: returns (c_expr, Ty)
    def const_or_val(s, p, ty, fn):
        p.ws()
        m = p.rx(r'%("(?:[^"\\]|\\.)*"|[\w.$-]+)')
        if m:
            return vname(m.group(0))
        m = p.rx(r'@("(?:[^"\\]|\\.)*"|[\w.$-]+)')
        if m:
            g = m.group(0)
            return s.global_ref(g)
        if isinstance(ty, IntTy):
            if p.rx(r"true\b"): return "1"
            if p.rx(r"false\b"): return "0"
            m = p.rx(r"-?\d+")
            if m:
                v = int(m.group(0)) & ((1 << ty.bits) - 1)
                return f"(({ty.c()}){v}ULL)" if ty.bits <= 64 else f"(({ty.c()}){v})"
        if isinstance(ty, FloatTy):
            m = p.rx(r"0x[0-9A-Fa-f]+")
            if m:
                bits = int(m.group(0), 16)
                if ty.name == "float":
                    import struct
                    d = struct.unpack("<d", struct.pack("<Q", bits))[0]
                    fb = struct.unpack("<I", struct.pack("<f", d))[0] if d == d else (0x7fc00000 | ((bits >> 29) & 0x3fffff))
                    return f"u32_as_float({fb}u)"
                return f"u64_as_double({bits}ULL)"
            m = p.rx(r"-?\d+\.\d+(e[+-]?\d+)?")
            if m: return f"(({ty.c()}){m.group(0)})"
        if isinstance(ty, PtrTy):
            if p.rx(r"null\b"): return "((unsigned char *)0)"
            if p.rx(r"getelementptr\b"):
                p.eat("inbounds"); p.expect("(")
                bty = p.ty(); p.expect(",")
                pty = p.ty(); base = s.const_or_val(p, pty, fn)
                idx = []
                while p.eat(","):
                    p.eat("inrange")
                    it = p.ty(); idx.append((s.const_or_val(p, it, fn), it))
                p.expect(")")
                return s.gep(bty, base, idx)
            if p.rx(r"bitcast\b"):
                p.expect("("); t1 = p.ty(); v = s.const_or_val(p, t1, fn); p.expect("to"); p.ty(); p.expect(")")
                return v
            if p.rx(r"inttoptr\b"):
                p.expect("("); t1 = p.ty(); v = s.const_or_val(p, t1, fn); p.expect("to"); p.ty(); p.expect(")")
                return f"((unsigned char *)(uintptr_t){v})"
        if p.rx(r"(undef|poison)\b"):
            s.opts.setdefault("undef_uses", []).append((fn.name if fn else "?", repr(ty)))
            if isinstance(ty, IntTy) and ty.bits <= 64: return f"(({ty.c()})verif_nondet_u64())"
            return s.zero(ty)
        if p.rx(r"zeroinitializer\b"):
            return s.zero(ty)
        raise Err(f"operand? ty={ty} at {p.t[p.i:p.i+60]!r}")

    def zero(s, ty):
        if isinstance(ty, StructTy):
            s.agg(ty); return f"(({ty.c()}){{0}})"
        if isinstance(ty, PtrTy): return "((unsigned char *)0)"
        return f"(({ty.c()})0)"

    def agg(s, ty):
        k = ty.c()
        if k not in s.used_aggs:
            for f in ty.fields:
                if isinstance(f, StructTy): s.agg(f)
            s.used_aggs[k] = ty
        return k

    def global_ref(s, g):
        n = cname(g)
        if g in s.mod.funcs:
            return f"((unsigned char *)&{n})"
        s.opts.setdefault("globals_used", set()).add(g)
        return f"((unsigned char *)g_{n})"

    def typed_operand(s, p, fn):
        ty = p.ty(); skip_param_attrs(p)
        return s.const_or_val(p, ty, fn), ty

    def gep(s, bty, base, idx):
        # idx: list of (expr, ty). first index scales by sizeof(bty)
        parts = []
        cur = bty
        first = True
        for e, ity in idx:
            se = f"(int64_t)({ity.cs()}){e}" if isinstance(ity, IntTy) else e
            if first:
                parts.append(f"{se} * {cur.size()}"); first = False; continue
            if isinstance(cur, StructTy):
                m = re.match(r"\(\(\w+\)(\d+)ULL\)", e)
                k = int(m.group(1))
                parts.append(str(cur.layout()[0][k])); cur = cur.fields[k]
            elif isinstance(cur, ArrTy):
                cur = cur.el; parts.append(f"{se} * {cur.size()}")
            else:
                raise Err(f"gep into {cur}")
        return f"({base} + (" + " + ".join(parts) + "))"

    def ld(s, ty, ptr):
        if isinstance(ty, StructTy): s.agg(ty)
        t = ty.c() if not isinstance(ty, PtrTy) else "unsigned char *"
        return f"__VERIF_LD({t}, {ptr})"
    def st(s, ty, ptr, v):
        if isinstance(ty, StructTy): s.agg(ty)
        t = ty.c() if not isinstance(ty, PtrTy) else "unsigned char *"
        return f"__VERIF_ST({t}, {ptr}, {v})"

    # --- one function
    def function(s, fn):
        mod = s.mod
        decl = s.proto(fn)
        body = []
        decls = {}
        def setv(name, ty, expr):
            n = vname(name)
            if isinstance(ty, StructTy): s.agg(ty)
            decls[n] = ty
            fn.vty[name] = ty
            body.append(f"  {n} = {expr};")
        # pre-scan phis to emit edge copies
        phis = {}  # block label -> list of (dst, ty, [(val_expr_src, pred_label)])
        for lbl, lines in fn.blocks:
            for ln in lines:
                m = re.match(r'\s*(%(?:"(?:[^"\\]|\\.)*"|[\w.$-]+)) = phi (.*)$', ln)
                if m:
                    p = P(m.group(2), mod); ty = p.ty()
                    inc = []
                    while True:
                        p.expect("["); v = s.const_or_val(p, ty, fn); p.expect(",")
                        pl = p.rx(r'%("(?:[^"\\]|\\.)*"|[\w.$-]+)').group(0); p.expect("]")
                        inc.append((v, pl))
                        if not p.eat(","): break
                    phis.setdefault(lbl, []).append((m.group(1), ty, inc))
                    decls[vname(m.group(1))] = ty; fn.vty[m.group(1)] = ty
                    if isinstance(ty, StructTy): s.agg(ty)
        def goto(cur, target):
            # parallel copy for phis of target coming from cur
            ps = phis.get(target, [])
            st = []
            tmp = []
            for dst, ty, inc in ps:
                for v, pl in inc:
                    if pl == cur:
                        t = f"t_{cname(dst)}"
                        decls[t] = ty
                        tmp.append(f"{t} = {v};"); st.append(f"{vname(dst)} = {t};")
            return " ".join(tmp + st) + f" goto L_{cname(target)};"
        for lbl, lines in fn.blocks:
            body.append(f" L_{cname(lbl)}: ;")
            for ln in lines:
                s.instr(fn, lbl, ln.strip(), body, setv, goto, decls)
        out = [decl + " {"]
        for n, ty in decls.items():
            out.append(f"  {ty.c()} {n};")
        out += body
        out.append("}")
        return "\n".join(out)

    def proto(s, fn):
        ps = ", ".join(f"{ty.c()} {vname(n)}" for n, ty in fn.params) or "void"
        if isinstance(fn.ret, StructTy): s.agg(fn.ret)
        return f"{fn.ret.c()} {cname(fn.name)}({ps})"

    def instr(s, fn, lbl, ln, body, setv, goto, decls):
        mod = s.mod
        ln = re.sub(r",\s*!\w[\w.]*\s+!\d+", "", ln)
        ln = re.sub(r"\s+#\d+$", "", ln)
        if not ln or ln.startswith(";"): return
        m = re.match(r'(%(?:"(?:[^"\\]|\\.)*"|[\w.$-]+)) = (.*)$', ln)
        dst = None
        if m: dst, ln = m.group(1), m.group(2)
        p = P(ln, mod)
        op = p.rx(r"[a-z_.0-9]+").group(0)
        if op == "phi": return
        if op in ("tail", "musttail", "notail"):
            op = p.rx(r"[a-z_.0-9]+").group(0)
        if op == "ret":
            if p.eat("void"): body.append("  return;"); return
            v, ty = s.typed_operand(p, fn); body.append(f"  return {v};"); return
        if op == "br":
            if p.eat("label"):
                t = p.rx(r'%("(?:[^"\\]|\\.)*"|[\w.$-]+)').group(0)
                body.append("  " + goto(lbl, t)); return
            c, _ = s.typed_operand(p, fn); p.expect(","); p.expect("label")
            t = p.rx(r'%("(?:[^"\\]|\\.)*"|[\w.$-]+)').group(0); p.expect(","); p.expect("label")
            f = p.rx(r'%("(?:[^"\\]|\\.)*"|[\w.$-]+)').group(0)
            body.append(f"  if ({c}) {{ {goto(lbl, t)} }} else {{ {goto(lbl, f)} }}"); return
        if op == "switch":
            v, ty = s.typed_operand(p, fn); p.expect(","); p.expect("label")
            d = p.rx(r'%("(?:[^"\\]|\\.)*"|[\w.$-]+)').group(0); p.expect("[")
            while not p.eat("]"):
                cv, cty = s.typed_operand(p, fn); p.expect(","); p.expect("label")
                t = p.rx(r'%("(?:[^"\\]|\\.)*"|[\w.$-]+)').group(0)
                body.append(f"  if ({v} == {cv}) {{ {goto(lbl, t)} }}")
            body.append("  " + goto(lbl, d)); return
        if op == "landingpad":
            ty = p.ty(); setv(dst, ty, s.zero(ty)); return
        if op == "resume":
            body.append(f"  return{'' if isinstance(fn.ret, VoidTy) else ' ' + s.zero(fn.ret)};"); return
        if op == "unreachable":
            body.append("  __VERIF_UNREACHABLE();"); return
        if op == "store":
            p.eat("volatile")
            v, ty = s.typed_operand(p, fn); p.expect(","); ptr, _ = s.typed_operand(p, fn)
            body.append(f"  {s.st(ty, ptr, v)};"); return
        if op == "load":
            p.eat("volatile")
            ty = p.ty(); p.expect(","); ptr, _ = s.typed_operand(p, fn)
            setv(dst, ty, s.ld(ty, ptr)); return
        if op == "alloca":
            ty = p.ty()
            n = 1
            if p.eat(","):
                if not p.rx(r"align \d+"):
                    cnt, cty = s.typed_operand(p, fn); n = cnt
            b = f"a_{cname(dst)}"
            body.append(f"  ;")
            decls[b + f"[{ty.size()} * {n}] __attribute__((aligned(16)))"] = IntTy(8)
            setv(dst, PtrTy(ty), b); return
        if op == "getelementptr":
            p.eat("inbounds")
            bty = p.ty(); p.expect(","); base, pty = s.typed_operand(p, fn)
            idx = []
            while p.eat(","):
                e, ity = s.typed_operand(p, fn); idx.append((e, ity))
            setv(dst, PtrTy(IntTy(8)), s.gep(bty, base, idx)); return
        if op in INT_BIN or op in ("sdiv", "srem", "ashr"):
            while p.rx(r"(nuw|nsw|exact)\b"): pass
            ty = p.ty(); a = s.const_or_val(p, ty, fn); p.expect(","); b = s.const_or_val(p, ty, fn)
            ct, cs = ty.c(), ty.cs()
            if ty.bits == 1:
                e = {"and": f"({a} & {b})", "or": f"({a} | {b})", "xor": f"({a} ^ {b})", "add": f"({a} ^ {b})", "sub": f"({a} ^ {b})", "mul": f"({a} & {b})"}[op]
                setv(dst, ty, e); return
            wide = "uint64_t" if ty.bits <= 64 else "unsigned __int128"
            mask = f"& (({wide})-1 >> ({64 if ty.bits<=64 else 128} - {ty.bits}))" if ty.bits not in (8, 16, 32, 64, 128) else ""
            if op in ("shl", "lshr"):
                # LLVM: shift amount >= width is poison -> nondet value
                e = f"(({ct})((({wide}){b} >= {ty.bits}) ? ({wide})verif_nondet_u64() : ((({wide}){a} {INT_BIN[op]} ({wide}){b}) {mask})))"
            elif op == "ashr":
                e = f"(({ct})((({wide}){b} >= {ty.bits}) ? ({wide})verif_nondet_u64() : ({wide})(({cs}){a} >> {b})))"
            elif op in ("sdiv", "srem"):
                e = f"(({ct})(({cs}){a} {'/' if op=='sdiv' else '%'} ({cs}){b}))"
            else:
                e = f"(({ct})((({wide}){a} {INT_BIN[op]} ({wide}){b}) {mask}))"
            setv(dst, ty, e); return
        if op in ("fadd", "fsub", "fmul", "fdiv"):
            while p.rx(r"(fast|nnan|ninf|nsz|arcp|contract|afn|reassoc)\b"): pass
            ty = p.ty(); a = s.const_or_val(p, ty, fn); p.expect(","); b = s.const_or_val(p, ty, fn)
            setv(dst, ty, f"({a} {dict(fadd='+',fsub='-',fmul='*',fdiv='/')[op]} {b})"); return
        if op == "fneg":
            ty = p.ty(); a = s.const_or_val(p, ty, fn); setv(dst, ty, f"(-{a})"); return
        if op == "icmp":
            pred = p.rx(r"\w+").group(0); ty = p.ty(); a = s.const_or_val(p, ty, fn); p.expect(","); b = s.const_or_val(p, ty, fn)
            if isinstance(ty, PtrTy):
                if pred in ("eq", "ne"): e = f"({a} {ICMP[pred]} {b})"
                else: e = f"((uintptr_t){a} {ICMP[pred]} (uintptr_t){b})"
            elif pred[0] == "s": e = f"(({ty.cs()}){a} {ICMP[pred]} ({ty.cs()}){b})"
            else: e = f"({a} {ICMP[pred]} {b})"
            setv(dst, IntTy(1), e); return
        if op == "fcmp":
            while p.rx(r"(fast|nnan|ninf|nsz|arcp|contract|afn|reassoc)\b"): pass
            pred = p.rx(r"\w+").group(0); ty = p.ty(); a = s.const_or_val(p, ty, fn); p.expect(","); b = s.const_or_val(p, ty, fn)
            setv(dst, IntTy(1), FCMP[pred].format(a=a, b=b)); return
        if op in ("zext", "sext", "trunc", "bitcast", "ptrtoint", "inttoptr", "fpext", "fptrunc",
                  "uitofp", "sitofp", "fptoui", "fptosi", "addrspacecast"):
            v, ty = s.typed_operand(p, fn); p.expect("to"); to = p.ty()
            if op == "zext": e = f"(({to.c()}){v})"
            elif op == "sext":
                e = f"(({to.c()})({to.cs()})({ty.cs()}){v})" if ty.bits != 1 else f"(({to.c()})({v} ? -1 : 0))"
            elif op == "trunc":
                e = f"(({to.c()})({v} & 1))" if to.bits == 1 else f"(({to.c()}){v})"
            elif op == "bitcast":
                if isinstance(ty, PtrTy) and isinstance(to, PtrTy): e = v
                elif isinstance(ty, FloatTy) and isinstance(to, IntTy): e = f"{ty.name}_as_u{to.bits}({v})"
                elif isinstance(ty, IntTy) and isinstance(to, FloatTy): e = f"u{ty.bits}_as_{to.name}({v})"
                else: raise Err(f"bitcast {ty} -> {to}")
            elif op == "ptrtoint": e = f"(({to.c()})(uintptr_t){v})"
            elif op == "inttoptr": e = f"((unsigned char *)(uintptr_t){v})"
            elif op in ("fpext", "fptrunc", "uitofp"): e = f"(({to.c()}){v})"
            elif op == "sitofp": e = f"(({to.c()})({ty.cs()}){v})"
            elif op == "fptoui": e = f"(({to.c()}){v})"
            elif op == "fptosi": e = f"(({to.c()})({to.cs()}){v})"
            setv(dst, to, e); return
        if op == "select":
            c, _ = s.typed_operand(p, fn); p.expect(","); a, ty = s.typed_operand(p, fn); p.expect(","); b, _ = s.typed_operand(p, fn)
            setv(dst, ty, f"({c} ? {a} : {b})"); return
        if op == "freeze":
            v, ty = s.typed_operand(p, fn); setv(dst, ty, v); return
        if op == "extractvalue":
            v, ty = s.typed_operand(p, fn); p.expect(","); k = int(p.rx(r"\d+").group(0))
            setv(dst, ty.fields[k], f"{v}.f{k}"); return
        if op == "insertvalue":
            v, ty = s.typed_operand(p, fn); p.expect(","); e, ety = s.typed_operand(p, fn); p.expect(","); k = int(p.rx(r"\d+").group(0))
            n = vname(dst); s.agg(ty); decls[n] = ty; fn.vty[dst] = ty
            body.append(f"  {n} = {v}; {n}.f{k} = {e};"); return
        if op == "call" or op == "invoke":
            while p.rx(r"(fastcc|ccc|coldcc)\b"): pass
            skip_param_attrs(p)
            rty = p.ty()
            callee = p.rx(r'@("(?:[^"\\]|\\.)*"|[\w.$-]+)')
            if not callee:
                fp = p.rx(r'%("(?:[^"\\]|\\.)*"|[\w.$-]+)').group(0)
                s.opts.setdefault("indirect", 0); s.opts["indirect"] += 1
                callee = "@verif_indirect_call_%d" % s.opts["indirect"]
            else:
                callee = callee.group(0)
            p.expect("(")
            args = []
            if not p.eat(")"):
                while True:
                    if p.eat("metadata"):
                        depth = 0
                        while p.i < len(p.t) and not (depth == 0 and p.t[p.i] in ",)"):
                            if p.t[p.i] == "(": depth += 1
                            if p.t[p.i] == ")": depth -= 1
                            p.i += 1
                        args.append(("0", VoidTy()))
                    else:
                        args.append(s.typed_operand(p, fn))
                    if p.eat(")"): break
                    p.expect(",")
            on_abort = None
            if op == "invoke":
                p.ws(); m = p.rx(r'.*?to label (%(?:"(?:[^"\\]|\\.)*"|[\w.$-]+)) unwind label (%(?:"(?:[^"\\]|\\.)*"|[\w.$-]+))')
                on_abort = goto(lbl, m.group(2))
            s.call(fn, dst, rty, callee, args, body, setv, on_abort)
            if op == "invoke":
                body.append("  " + goto(lbl, m.group(1)))
            return
        raise Err(f"unhandled instruction: {ln}")

    def call(s, fn, dst, rty, callee, args, body, setv, on_abort=None):
        n = callee[1:]
        a = [e for e, _ in args]
        def r(expr):
            if dst: setv(dst, rty, expr)
            else: body.append(f"  (void){expr};" if not isinstance(rty, VoidTy) else f"  {expr};")
        if n.startswith("llvm.lifetime") or n.startswith("llvm.dbg") or n.startswith("llvm.experimental.noalias") or n == "llvm.assume":
            return
        if n.startswith("llvm.expect"): return r(a[0])
        if n.startswith("llvm.memcpy"): return body.append(f"  __VERIF_MEMCPY({a[0]}, {a[1]}, {a[2]});")
        if n == "memcpy": body.append(f"  __VERIF_MEMCPY({a[0]}, {a[1]}, {a[2]});"); return r(a[0]) if dst else None
        if n == "memmove": body.append(f"  __VERIF_MEMMOVE({a[0]}, {a[1]}, {a[2]});"); return r(a[0]) if dst else None
        if n == "memset": body.append(f"  __VERIF_MEMSET({a[0]}, {a[1]}, {a[2]});"); return r(a[0]) if dst else None
        if n == "memchr": return r(f"__VERIF_MEMCHR({a[0]}, {a[1]}, {a[2]})")
        if n == "strlen": return r(f"__VERIF_STRLEN({a[0]})")
        if n in ("bcmp", "memcmp"): return r(f"__VERIF_MEMCMP({a[0]}, {a[1]}, {a[2]})")
        if n.startswith("llvm.memmove"): return body.append(f"  __VERIF_MEMMOVE({a[0]}, {a[1]}, {a[2]});")
        if n.startswith("llvm.memset"): return body.append(f"  __VERIF_MEMSET({a[0]}, {a[1]}, {a[2]});")
        if n == "llvm.ubsantrap": return body.append(f"  __VERIF_UBTRAP({a[0]});")
        if n == "llvm.trap": return body.append(f"  __VERIF_UBTRAP(255);")
        m = re.match(r"llvm\.bswap\.i(\d+)", n)
        if m: return r(f"__builtin_bswap{m.group(1)}({a[0]})")
        m = re.match(r"llvm\.([us])(add|sub|mul)\.with\.overflow\.i(\d+)", n)
        if m:
            sg, o, b = m.groups(); s.agg(rty)
            return r(f"verif_{sg}{o}_ov{b}({a[0]}, {a[1]})")
        m = re.match(r"llvm\.(umax|umin|smax|smin)\.i(\d+)", n)
        if m:
            o, b = m.groups(); ty = IntTy(int(b)); c = ty.cs() if o[0] == "s" else ty.c()
            cmp = ">" if o.endswith("max") else "<"
            return r(f"((({c}){a[0]} {cmp} ({c}){a[1]}) ? {a[0]} : {a[1]})")
        m = re.match(r"llvm\.(fshl|fshr)\.i(\d+)", n)
        if m:
            o, b = m.groups(); b = int(b); ty = IntTy(b)
            if o == "fshl": return r(f"(({ty.c()})(({a[2]} % {b}) ? (({a[0]} << ({a[2]} % {b})) | ({a[1]} >> ({b} - ({a[2]} % {b})))) : {a[0]}))")
            return r(f"(({ty.c()})(({a[2]} % {b}) ? (({a[1]} >> ({a[2]} % {b})) | ({a[0]} << ({b} - ({a[2]} % {b})))) : {a[1]}))")
        m = re.match(r"llvm\.(usub|uadd)\.sat\.i(\d+)", n)
        if m:
            o, b = m.groups(); ty = IntTy(int(b)); c = ty.c()
            if o == "usub": return r(f"(({c})(({c}){a[0]} > ({c}){a[1]} ? ({c}){a[0]} - ({c}){a[1]} : 0))")
            return r(f"(({c})(({c})(({c}){a[0]} + ({c}){a[1]}) < ({c}){a[0]} ? ({c})-1 : ({c})(({c}){a[0]} + ({c}){a[1]})))")
        m = re.match(r"llvm\.abs\.i(\d+)", n)
        if m:
            ty = IntTy(int(m.group(1))); return r(f"(({ty.c()})((({ty.cs()}){a[0]} < 0) ? -({ty.cs()}){a[0]} : ({ty.cs()}){a[0]}))")
        if n.startswith("llvm."):
            raise Err(f"intrinsic {n}")
        abort_chk = (f"  if (verif_aborted) {{ {on_abort} }}" if on_abort else
                     f"  if (verif_aborted) return{'' if isinstance(fn.ret, VoidTy) else ' ' + s.zero(fn.ret)};")
        for rx, cn in s.opts.get("stub_funcs", {}).items():
            if re.search(rx, n):
                s.opts.setdefault("stubbed", set()).add(n)
                if dst: setv(dst, rty, f"{cn}()")
                else: body.append(f"  {cn}();")
                body.append(abort_chk); return
        hook = s.opts.get("extern_map", {}).get(n)
        if hook:
            r(hook.format(*a)) if "{" in hook else r(f"{hook}({', '.join(a)})")
            body.append(abort_chk); return
        if callee in s.mod.funcs:
            expr = f"{cname(callee)}({', '.join(a)})"
            if dst: setv(dst, rty, expr)
            else: body.append(f"  {expr};")
            body.append(abort_chk)
            return
        # unknown external: declare + call
        s.opts.setdefault("externs", {})[n] = (rty, [t for _, t in args])
        expr = f"{cname(callee)}({', '.join(a)})"
        if dst: setv(dst, rty, expr)
        else: body.append(f"  {expr};")
        body.append(abort_chk)


def parse_module(text):
    mod = Mod()
    lines = [re.sub(r',?\s*![A-Za-z_][\w.]* !\d+', '', l) if '!' in l and not l.startswith('!') else l for l in text.split("\n")]
    i = 0
    while i < len(lines):
        ln = lines[i]
        m = re.match(r'(%(?:"(?:[^"\\]|\\.)*"|[\w.$-]+)) = type (.*)$', ln)
        if m:
            mod.named_src[m.group(1)] = m.group(2); i += 1; continue
        m = re.match(r'(@(?:"(?:[^"\\]|\\.)*"|[\w.$-]+)) = (.*)$', ln)
        if m:
            mod.globals[m.group(1)] = m.group(2); i += 1; continue
        if ln.startswith("define "):
            hdr = ln
            m = re.match(r'define (.*?)(@(?:"(?:[^"\\]|\\.)*"|[\w.$-]+))\((.*?)\)(?: [^()]*?)?(?: personality .*)?\{$', hdr)
            if not m: raise Err(f"define? {hdr}")
            pre, name, params = m.groups()
            # return type is the last type-looking thing in `pre`
            p = P(pre, mod)
            while True:
                p.ws(); save = p.i
                w = p.rx(r"[a-z_]+(\(\d+\))?\b")
                if w and not re.match(r"(i\d+|void|float|double|ptr)$", w.group(0)): continue
                p.i = save; break
            ret = p.ty()
            pp = P(params, mod); ps = []
            while pp.rest():
                if pp.eat("..."): break
                ty = pp.ty(); skip_param_attrs(pp)
                nm = pp.rx(r'%("(?:[^"\\]|\\.)*"|[\w.$-]+)').group(0)
                ps.append((nm, ty))
                if not pp.eat(","): break
            fn = Fn(mod, name, ret, ps)
            for nm, ty in ps: fn.vty[nm] = ty
            i += 1
            lbl = "%entry_" ; cur = []
            # implicit first label = number after params
            fn.blocks.append([lbl, cur])
            while lines[i] != "}":
                l2 = lines[i]
                m2 = re.match(r'("(?:[^"\\]|\\.)*"|[\w.$-]+):', l2)
                if m2:
                    cur = []; fn.blocks.append(["%" + m2.group(1), cur])
                elif l2.strip():
                    # continuation lines (invoke ... to label / landingpad clauses)
                    while re.match(r"\s+(to label|cleanup|catch|filter)\b", lines[i+1]):
                        i += 1; l2 = l2 + " " + lines[i].strip()
                    # multi-line switch
                    if l2.strip().startswith("switch") and not l2.rstrip().endswith("]"):
                        acc = l2
                        while not lines[i].strip().endswith("]"):
                            i += 1; acc += " " + lines[i].strip()
                        l2 = acc
                    cur.append(l2)
                i += 1
            mod.funcs[name] = fn
            i += 1; continue
        if ln.startswith("declare "):
            m = re.match(r'declare .*?(@(?:"(?:[^"\\]|\\.)*"|[\w.$-]+))\(', ln)
            if m: mod.decls[m.group(1)] = ln
        i += 1
    # entry label: LLVM numbers the entry block implicitly; find it from preds comments is overkill:
    for fn in mod.funcs.values():
        # entry block implicit number = number of params (unnamed) ; only matters for phi preds
        nums = [int(n[1:]) for n, _ in fn.params if re.match(r"%\d+$", n)]
        unnamed = len([1 for n, _ in fn.params if re.match(r"%\d+$", n)])
        fn.blocks[0][0] = "%" + str(unnamed)
    return mod

PRELUDE = r"""
#include <stdint.h>
#include <stddef.h>
#include <string.h>
#include "verif_rt.h"
"""

DEFAULT_EXTERN_MAP = {
    "_ZN5sbepp16assertion_failedEPKcS1_S1_l": "__VERIF_ASSERT_FAILED({3})",
    "sbepp_verif_touch": "__VERIF_TOUCH({0}, {1})",
}

def is_root(n):
    return not n.startswith("@_Z") and not n.startswith("@__")

def emit(mod, opts):
    tr = Tr(mod, opts)
    bodies = []
    roots = [n for n in mod.funcs if is_root(n)]
    seen, todo = set(), list(roots)
    while todo:
        n = todo.pop()
        if n in seen: continue
        if any(re.search(rx, n) for rx in opts.get("stub_funcs", {})): continue
        seen.add(n)
        for lbl, lines in mod.funcs[n].blocks:
            for ln in lines:
                for m in re.finditer(r'@("(?:[^"\\]|\\.)*"|[\w.$-]+)', ln):
                    if m.group(0) in mod.funcs: todo.append(m.group(0))
    mod.funcs = {n: f for n, f in mod.funcs.items() if n in seen}
    for name, fn in mod.funcs.items():
        bodies.append(tr.function(fn))
    out = [PRELUDE]
    hdr = ["/* generated by ir2c */", "#include <stdint.h>", "#include <stddef.h>"]
    for k, ty in tr.used_aggs.items():
        d = f"{k} {{ " + " ".join(f"{f.c()} f{i};" for i, f in enumerate(ty.fields)) + " };"
        out.append(d)
    for k, ty in tr.used_aggs.items():
        if len(ty.fields) == 2 and isinstance(ty.fields[0], IntTy) and isinstance(ty.fields[1], IntTy) and ty.fields[1].bits == 1:
            b = ty.fields[0].bits; it = ty.fields[0]
            for sg in "su":
                for o in ("add", "sub", "mul"):
                    t = it.cs() if sg == "s" else it.c()
                    out.append(f"static inline {k} verif_{sg}{o}_ov{b}({it.c()} a, {it.c()} b){{ {k} r; {t} x; r.f1 = __builtin_{o}_overflow(({t})a, ({t})b, &x); r.f0 = ({it.c()})x; return r; }}")
    for cn_ in sorted(set(opts.get("stub_funcs", {}).values())):
        out.append(f"void {cn_}(void);")
    for n, (rty, atys) in opts.get("externs", {}).items():
        out.append(f"{rty.c()} {cname(n)}({', '.join(t.c() for t in atys) or 'void'});")
    for g in sorted(opts.get("globals_used", [])):
        src = mod.globals.get(g, "")
        m = re.search(r'constant \[(\d+) x i8\] c"((?:[^"\\]|\\.)*)"', src)
        if m:
            raw = m.group(2)
            bs = []
            j = 0
            while j < len(raw):
                if raw[j] == "\\":
                    bs.append(int(raw[j+1:j+3], 16)); j += 3
                else:
                    bs.append(ord(raw[j])); j += 1
            out.append(f"static unsigned char g_{cname(g)}[{m.group(1)}] = {{" + ",".join(map(str, bs)) + "};")
        else:
            m3 = re.search(r'(?:constant|global) \[(\d+) x i(\d+)\] (\[(.*)\]|zeroinitializer)', src)
            if m3:
                cnt, bits = int(m3.group(1)), int(m3.group(2)); nb = bits // 8
                vals = [int(x) for x in re.findall(r'i\d+ (-?\d+)', m3.group(4) or "")] if m3.group(4) else [0] * cnt
                vals = (vals + [0] * cnt)[:cnt]
                bs = []
                for v in vals:
                    v &= (1 << bits) - 1
                    bs += [(v >> (8 * k)) & 255 for k in range(nb)]
                out.append(f"static unsigned char g_{cname(g)}[{cnt * nb}] __attribute__((aligned(16))) = {{" + ",".join(map(str, bs)) + "};")
                continue
            m2 = re.search(r'(?:constant|global) (i(\d+)) (-?\d+)', src)
            if m2:
                nb = int(m2.group(2)) // 8; v = int(m2.group(3)) & ((1 << (nb * 8)) - 1)
                out.append(f"static unsigned char g_{cname(g)}[{nb}] = {{" + ",".join(str((v >> (8 * k)) & 255) for k in range(nb)) + "};")
            else:
                opts.setdefault("opaque_globals", []).append(g)
                out.append(f"/* opaque global {g} */ extern unsigned char g_{cname(g)}[];")
    for name, fn in mod.funcs.items():
        pr = tr.proto(fn) + ";"
        out.append(pr)
        if is_root(name) and not isinstance(fn.ret, StructTy): hdr.append(pr)
    out += bodies
    return "\n".join(out) + "\n", "\n".join(hdr) + "\n"

def translate(ll_text, extern_map=None):
    mod = parse_module(ll_text)
    em = dict(DEFAULT_EXTERN_MAP)
    stub = {}
    if extern_map:
        stub = extern_map.get("__stub_funcs__", {})
        em.update({k: v for k, v in extern_map.items() if k != "__stub_funcs__"})
    opts = {"extern_map": em, "stub_funcs": stub}
    n_instr = sum(len(lines) for fn in mod.funcs.values() for _, lines in fn.blocks)
    c, h = emit(mod, opts)
    info = {"functions": [cname(n) for n in mod.funcs], "ir_instructions": n_instr,
            "externs": sorted(opts.get("externs", {})), "undef_uses": len(opts.get("undef_uses", [])),
            "opaque_globals": opts.get("opaque_globals", []), "indirect_calls": opts.get("indirect", 0), "stubbed": sorted(opts.get("stubbed", []))}
    return c, h, info

if __name__ == "__main__":
    src, dst = sys.argv[1], sys.argv[2]
    c, h, info = translate(open(src).read())
    open(dst, "w").write(c)
    open(re.sub(r"\.c$", ".h", dst), "w").write(h)
    print(info)
