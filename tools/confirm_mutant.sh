#!/bin/bash
# usage: confirm_mutant.sh <worktree-with-change-applied> <out-dir-with-patch-and-demo>
# confirms: (1) builds + existing suite passes with the change, (2) demo fails with it, (3) demo passes without it
WT=$1; OUT=$2
cd "$WT" || exit 2
git diff > /tmp/confirm_$$.diff
if ! diff -q <(git diff) "$OUT/patch.diff" >/dev/null; then echo "NOTE: worktree diff differs from patch.diff"; fi
cmake -G Ninja -B _build -DCMAKE_BUILD_TYPE=RelWithDebInfo -DCMAKE_PREFIX_PATH=/root/miniconda -DSBEPP_BUILD_TESTS=ON -DSBEPP_DEV_MODE=ON -DSBEPP_SEPARATE_TESTS=ON -DCMAKE_CXX_FLAGS=-Wno-error > _cfg.log 2>&1 || { echo "CONFIGURE FAILED"; exit 1; }
cmake --build _build -j${JOBS:-8} > _build.log 2>&1 || { echo "BUILD FAILED"; tail -20 _build.log; exit 1; }
ctest --test-dir _build -j8 --timeout 900 > _ctest.log 2>&1; rc=$?
echo "suite_with_change rc=$rc: $(grep 'tests passed' _ctest.log)"
bash "$OUT/demo/run.sh" "$WT" "$WT/_build/sbeppc/sbeppc" > _demo_mut.log 2>&1; d1=$?
echo "demo_with_change rc=$d1"
git stash -q
bash "$OUT/demo/run.sh" "$WT" > _demo_clean.log 2>&1; d2=$?
echo "demo_clean rc=$d2"
git stash pop -q
rm -rf _build _cfg.log _build.log
if [ $rc -eq 0 ] && [ $d1 -ne 0 ] && [ $d2 -eq 0 ]; then echo "CONFIRMED"; else echo "NOT CONFIRMED"; fi
