#!/usr/bin/env python3
"""(re)generates the mechanical verification schemas under /verif/schemas (committed output)."""
import os
OUT = os.path.join(os.path.dirname(os.path.dirname(os.path.abspath(__file__))), "schemas")
HDR = '''        <composite name="messageHeader">
            <type name="blockLength" primitiveType="uint16"/>
            <type name="templateId" primitiveType="uint16"/>
            <type name="schemaId" primitiveType="uint16"/>
            <type name="version" primitiveType="uint16"/>
        </composite>
'''
def schema(pkg, types, msgs, sid=1, be=False, version=0):
    return ('<?xml version="1.0" encoding="UTF-8"?>\n<sbe:messageSchema xmlns:sbe="http://fixprotocol.io/2016/sbe" package="%s" id="%d" version="%d" byteOrder="%s">\n    <types>\n%s%s    </types>\n%s</sbe:messageSchema>\n'
            % (pkg, sid, version, "bigEndian" if be else "littleEndian", HDR, types, msgs))

PRIMS = ["char", "int8", "uint8", "int16", "uint16", "int32", "uint32", "int64", "uint64", "float", "double"]
EXPL = {  # explicit min, max, null per primitive
    "char": ("65", "90", "42"), "int8": ("-5", "100", "-7"), "uint8": ("1", "100", "200"), "int16": ("-300", "30000", "-32767"),
    "uint16": ("1", "65000", "65001"), "int32": ("-70000", "2147483646", "2147483647"), "uint32": ("2", "4000000000", "0"),
    "int64": ("-9223372036854775807", "9223372036854775806", "9223372036854775807"), "uint64": ("1", "18446744073709551614", "0"),
    "float": ("-1.5", "2.5", "NaN"), "double": ("-2.25", "1e300", "-INF"),
}
def vs_opt():
    t = ""
    f = ""
    k = 1
    for p in PRIMS:
        mn, mx, nl = EXPL[p]
        t += '        <type name="r_%s" primitiveType="%s"/>\n' % (p, p)
        t += '        <type name="o_%s" primitiveType="%s" presence="optional"/>\n' % (p, p)
        t += '        <type name="rx_%s" primitiveType="%s" minValue="%s" maxValue="%s"/>\n' % (p, p, mn, mx)
        t += '        <type name="ox_%s" primitiveType="%s" presence="optional" minValue="%s" maxValue="%s" nullValue="%s"/>\n' % (p, p, mn, mx, nl)
        for pre in ("r", "o", "rx", "ox"):
            f += '        <field name="f_%s_%s" id="%d" type="%s_%s"/>\n' % (pre, p, k, pre, p); k += 1
    t += '        <type name="oy_float" primitiveType="float" presence="optional" nullValue="INF"/>\n'
    t += '        <type name="oy_double" primitiveType="double" presence="optional" nullValue="NaN" minValue="-INF" maxValue="INF"/>\n'
    m = '    <sbe:message name="m" id="1">\n%s    </sbe:message>\n' % f
    open(os.path.join(OUT, "vs_opt.xml"), "w").write(schema("vs_opt", t, m, sid=16))

def vs_dims():
    U = ["uint8", "uint16", "uint32", "uint64"]
    t = ""; m = ""; k = 1
    for n in U:
        for b in U:
            t += '        <composite name="dim_%s_%s">\n            <type name="blockLength" primitiveType="%s"/>\n            <type name="numInGroup" primitiveType="%s"/>\n        </composite>\n' % (n, b, b, n)
            m += '    <sbe:message name="m_%s_%s" id="%d">\n        <group name="g" id="1" dimensionType="dim_%s_%s">\n            <field name="a" id="2" type="uint8"/>\n        </group>\n    </sbe:message>\n' % (n, b, k, n, b); k += 1
    # nested (non-flat) groups for the 4 diagonal pairs
    t += '        <composite name="vd8">\n            <type name="length" primitiveType="uint8"/>\n            <type name="varData" primitiveType="uint8" length="0"/>\n        </composite>\n'
    for n in U:
        m += ('    <sbe:message name="n_%s" id="%d">\n        <group name="g" id="1" dimensionType="dim_%s_%s">\n            <field name="a" id="2" type="uint8"/>\n'
              '            <data name="d" id="3" type="vd8"/>\n        </group>\n    </sbe:message>\n') % (n, k, n, n); k += 1
    # nested groups for the 12 mixed pairs as well (numInGroup and blockLength of different widths)
    for n in U:
        for b in U:
            if n == b: continue
            m += ('    <sbe:message name="n_%s_%s" id="%d">\n        <group name="g" id="1" dimensionType="dim_%s_%s">\n            <field name="a" id="2" type="uint8"/>\n'
                  '            <data name="d" id="3" type="vd8"/>\n        </group>\n    </sbe:message>\n') % (n, b, k, n, b); k += 1
    open(os.path.join(OUT, "vs_dims.xml"), "w").write(schema("vs_dims", t, m, sid=12))

def vs_data():
    U = ["uint8", "uint16", "uint32", "uint64"]
    for be in (False, True):
        t = ""; m = ""; k = 1
        for l in U:
            for e in ("char", "uint8", "int8"):
                t += '        <composite name="vd_%s_%s">\n            <type name="length" primitiveType="%s"/>\n            <type name="varData" primitiveType="%s" length="0"/>\n        </composite>\n' % (l, e, l, e)
                m += '    <sbe:message name="m_%s_%s" id="%d">\n        <data name="d" id="1" type="vd_%s_%s"/>\n    </sbe:message>\n' % (l, e, k, l, e); k += 1
        pkg = "vs_data_be" if be else "vs_data_le"
        open(os.path.join(OUT, pkg + ".xml"), "w").write(schema(pkg, t, m, sid=13, be=be))

def vs_msg2_be():
    """big-endian twin of the hand-written vs_msg2_le.xml"""
    s = open(os.path.join(OUT, "vs_msg2_le.xml")).read()
    s = s.replace('package="vs_msg2_le"', 'package="vs_msg2_be"').replace('byteOrder="littleEndian"', 'byteOrder="bigEndian"')
    open(os.path.join(OUT, "vs_msg2_be.xml"), "w").write(s)

if __name__ == "__main__":
    vs_opt(); vs_dims(); vs_data(); vs_msg2_be()
    print("ok")
