#!/bin/bash
# usage: tools/regress_seeded.sh [name-glob]   -- every kept seeded change must still be reported by the quick check of its property
cd /verif
for d in seeded/${1:-*}/; do
  n=$(basename $d); pid=$(python3 -c "import json;m=json.load(open('$d/meta.json'));print('SKIP' if m.get('superseded') else m['property'])")
  if [ "$pid" = SKIP ]; then echo "mutant=$n superseded (see meta.json)"; continue; fi
  tools/detect_patch.sh $n /verif/$d/patch.diff $pid
done
