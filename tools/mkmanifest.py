#!/usr/bin/env python3
"""writes /verif/MANIFEST.json from the table below (kept in one place so the manifest is always valid)"""
import json, os, sys
V = os.path.dirname(os.path.dirname(os.path.abspath(__file__)))
sys.path.insert(0, os.path.join(V, "tools"))
from claims import CLAIMS, NA, HOOK_COMMITS
props = [json.loads(l) for l in open(os.path.join(V, "properties.jsonl"))]
TRUST = ("trusted: clang-14 lowering at -O1 with UB made explicit by -fsanitize-trap, own IR->C translator (each harness' witness trace is replayed on the real g++ build), "
         "cbmc 6.11 and its SAT/SMT back ends, the independent SBE reference model in engine/sbemodel.py; schemas are enumerated (schemas/*.xml), not symbolic; "
         "gcc/MSVC code generation and constant evaluation are outside the claim; bounds as listed in the evidence file")
m = {"version": 1,
     "setup_cmd": "python3 -m py_compile engine/*.py props/*.py tools/*.py && command -v cbmc clang++-14 g++ z3 >/dev/null",
     "hooks": {"guard": "SBEPP_VERIF",
               "enable": "checks lower wrapper TUs with clang++-14 -DSBEPP_VERIF (engine/pipeline.py lower_flags); native replays build the real code with the guard off",
               "baseline_off_cmd": "cmake -G Ninja -B /repo/_build -S /repo -DCMAKE_BUILD_TYPE=RelWithDebInfo -DCMAKE_PREFIX_PATH=/root/miniconda -DSBEPP_BUILD_TESTS=ON -DSBEPP_DEV_MODE=ON -DSBEPP_SEPARATE_TESTS=ON -DCMAKE_CXX_FLAGS=-Wno-error && cmake --build /repo/_build -j16 && ctest --test-dir /repo/_build -j8 --timeout 900",
               "source_commits": HOOK_COMMITS, "add_only": True},
     "engines": [{"name": "ir2c+cbmc", "path": "engine/", "serves_properties": sorted(CLAIMS),
                  "kind_free_text": "clang-14 -O1 IR of extern-C wrappers over the real sbepp.hpp / sbeppc-generated headers / sbeppc kernels -> own IR->C translator (engine/ir2c.py) -> cbmc 6.11 (minisat/cadical/kissat/z3 portfolio) against an independent SBE reference model; witness twins; native replay of counterexamples and witnesses on the real code"}],
     "checks": [], "notes": "see DESIGN.md; known_findings.json lists repaired and open defects; replays/ holds counterexample replays (written only on a violation)",
     "not_applicable": []}
for p in props:
    pid = p["id"]
    if pid in CLAIMS:
        c = CLAIMS[pid]
        m["checks"].append({"property_id": pid, "quick_cmd": "./check %s --tier quick" % pid, "thorough_cmd": "./check %s --tier thorough" % pid,
                            "evidence_file": "/verif/evidence/%s.json" % pid, "replay_cmd_template": "./check %s --replay {path}" % pid, "engine": "ir2c+cbmc",
                            "level_claimed": {"category": c["level"], "text": c["text"], "design_ref": c["ref"]},
                            "level_note": c.get("note", "") + TRUST,
                            "technique": c.get("technique", "bounded symbolic execution of the real code's clang IR (ir2c -> cbmc), SAT/SMT verdict over all values within stated bounds")})
    else:
        m["not_applicable"].append({"property_id": pid, "reason": NA[pid]})
json.dump(m, open(os.path.join(V, "MANIFEST.json"), "w"), indent=1)
print("claimed:", sorted(CLAIMS), "n/a:", [x["property_id"] for x in m["not_applicable"]])
