#!/bin/bash
# usage: tools/run_all.sh quick|thorough [ids...]   -- runs the checks sequentially, prints one summary line each
tier=$1; shift
ids=${@:-C15 C16 C14 C13 C12 C20 C08 C11 C18 C17 C02 C01 C03 C04 C05 C19 C10 C06}
L=${LOGDIR:-/tmp}; mkdir -p $L
for id in $ids; do
  s=$(date +%s)
  ./check $id --tier $tier > $L/run_all_$id.log 2>&1; rc=$?
  echo "$id tier=$tier exit=$rc $(( $(date +%s) - s ))s :: $(tail -1 $L/run_all_$id.log | cut -c1-160)"
  grep -E "^(VIOLATION|ERROR)" $L/run_all_$id.log | head -5
done
