#!/usr/bin/env python3
"""keep_mutant.py <name> <out-dir> <property> <detected-by...> : stores a confirmed seeded change under /verif/seeded/<name>/"""
import json, os, shutil, sys
name, out, pid = sys.argv[1:4]; det = sys.argv[4:]
d = os.path.join("/verif/seeded", name)
if os.path.isdir(d): shutil.rmtree(d)
os.makedirs(d)
shutil.copy(os.path.join(out, "patch.diff"), d)
shutil.copytree(os.path.join(out, "demo"), os.path.join(d, "demo"))
try: meta = json.load(open(os.path.join(out, "meta.json")))
except Exception: meta = {}
meta.update({"property": pid, "origin": "independent sub-agent given only the property text and a scratch worktree",
             "confirmed_by_me": ["existing suite passes with the change (cmake build + ctest in a scratch worktree, 100% of 4311)",
                                 "demo/run.sh exits non-zero with the change", "demo/run.sh exits 0 on the clean tree"],
             "detected_by": det,
             "how_run": "tools/try_patch.sh seeded/%s/patch.diff %s  (git apply to /repo, ./check <id> --tier quick, git checkout -- .)" % (name, pid)})
json.dump(meta, open(os.path.join(d, "meta.json"), "w"), indent=1)
print("kept", d)
