HOOK_COMMITS = ["a4ec548", "01404f6", "d803445"]
PENDING = "check under construction in this session (claimed once its harnesses exist); not yet decided"
NA = {
 "C07": "the deciding event is a C++ compiler accepting sbeppc's textual output; there is no value to make symbolic and the producer (std::string/fmt/variant/unordered_map code driven by pugixml) cannot be lowered through the IR->C translator",
 "C09": "whole-program totality over unbounded input through pugixml (binary-only here) and heap/exception-heavy C++17; neither cbmc's C++ front end nor the translator can encode std::string/unordered_map/variant faithfully",
 "C18": "every trait is a compile-time constant or type alias; the only quantifier is 'all schemas', which this technique can only enumerate -- a solver query over zero variables is a unit test in disguise (size_bytes traits are decided under C05, min/max/null under C16)",
}
for p in ["C01","C02","C03","C04","C05","C06","C08","C10","C11","C12","C13","C14","C17","C19","C20"]:
    NA.setdefault(p, PENDING)
CLAIMS = {
 "C15": {"level": "model_checking", "ref": "DESIGN.md §6 C15",
         "text": "Bounded symbolic check (cbmc) of the real bitset_base<T> and of the sbeppc-generated choice accessors: for every underlying value, every choice index < width (symbolic in the kernel harness) and both bool values, getter == bit n and setter changes only bit n; ==/!=, raw access, get_by_tag/set_by_tag, visit and visit_set agree. Four widths; C++17/20 quick, C++11/14/17/20/2b thorough."},
 "C16": {"level": "model_checking", "ref": "DESIGN.md §6 C16",
         "text": "Bounded symbolic check (cbmc, IEEE float model) of required_base/optional_base as instantiated by the 22 built-in types and by 46 sbeppc-generated types (with/without explicit min/max/null, NaN/INF nulls): for ALL pairs of underlying bit patterns, ==,!=,<,<=,>,>=, has_value, bool, value_or, in_range, default/nullopt construction equal the reference definition; min/max/null constants equal the SBE table resp. the XML values. C++17 (hand-written operators) and C++20 (operator<=>) are separate IR."},
}
for k in CLAIMS: NA.pop(k, None)

CLAIMS.update({
 "C01": {"level": "translation_validation", "ref": "DESIGN.md §6 C01",
         "text": "For every message of the verification schemas (both byte orders; sbeppc rebuilt from /repo generates the headers) cbmc proves, from an ARBITRARY prior image, that each generated setter (all primitive/enum/set/array-element/composite-member fields at root, in flat and nested group entries; group resize; data resize and element store) writes exactly the reference bytes at the position the wire values imply and leaves every other byte unchanged -- one inductive step, so any in-order setter sequence yields the reference image. Includes a <data> of any uint8 length 0..255 in front of another member."},
 "C02": {"level": "translation_validation", "ref": "DESIGN.md §6 C02",
         "text": "For every message of the verification schemas cbmc proves that each generated getter (value, enum, set, constants, array elements/data(), composite views, group size/address/entries, data size/bytes) returns exactly the byte-level reference decode at the reference position, bit-exact (floats as bit patterns, all NaN payloads), for every image within the geometry bounds; C++17 (memcpy+bswap) and C++20 (bit_cast+reverse_copy) paths; the buffer is never written."},
 "C03": {"level": "translation_validation", "ref": "DESIGN.md §6 C03",
         "text": "Same obligations as C01/C02 plus size_bytes of message/group/entry/data and the one-step cursor protocol, with the wire blockLength of the root block and of every group symbolic in [compiled, compiled+E] independently per level: every compiled field, entry, nested group and data member is found where the wire image puts it."},
 "C04": {"level": "translation_validation", "ref": "DESIGN.md §6 C04",
         "text": "One-step cursor protocol: for every member of every level and the five cursor kinds (plain, init, dont_move, init_dont_move, skip), from EVERY cursor position inside the buffer object: a legal pre-state yields the random-access value/view and leaves the cursor at the documented position (chain: position after member k is the required position before member k+1); every other pre-state is reported through the assertion handler (checked build). Arbitrary images, extension E>0."},
 "C05": {"level": "translation_validation", "ref": "DESIGN.md §6 C05",
         "text": "R1: size_bytes of message, every group, entry and data member, the cursor-based size after skipping every member, and message_traits::size_bytes(actual counts, total data) all equal the length of the reference image (small scope). Trait formulas: message/group traits size_bytes == reference formula for ALL argument values. R2: flat-group size_bytes for the 16 dimension pairs and data size_bytes for the 4 length types with header values over their whole type range (products beyond 2^31/2^32)."},
 "C12": {"level": "model_checking", "ref": "DESIGN.md §6 C12",
         "text": "For all 16 (numInGroup, blockLength) type pairs generated by sbeppc: symbolic iterator operation sequences (depth 3 over ++,--,+=,-=,+,-,n+it,it++,it--), comparisons/distances, it[n], (it+n)-n, begin/end/size, operator[]/front/back, range-for addresses, size_bytes, resize/clear frame -- all header contents in a small scope (size<=3, blockLength 0..4); nested groups: forward iteration addresses, size/front, resize/clear frame."},
 "C13": {"level": "model_checking", "ref": "DESIGN.md §6 C13",
         "text": "Each of the 19 dynamic_array_ref operations (push_back, pop_back, 6 insert forms, 2 erase forms, 3 resize forms, 4 assign forms, assign_string, assign_range, clear, observers) from EVERY state (any length prefix <= CAP, any payload) with symbolic arguments equals the std::vector model: new prefix, payload, returned iterator, frame outside the area in use, no handler for valid vector operations. 4 length types x 2 byte orders x {char,uint8,int8}."},
 "C14": {"level": "model_checking", "ref": "DESIGN.md §6 C14",
         "text": "static_array_ref<char,char,N> for N=0..5 (0..8 thorough): assign_string (C string and range, 3 eos modes), assign_range, assign(first,last), assign(ilist), fill, assign(count,v), strlen, strlen_r against the documented byte-level spec for all array contents, all inputs of length <= N, with guard bytes on both sides and the returned iterator. The branches that only constant evaluation takes (C++20: bounded scan in strlen, string_length loop in assign_string) are lowered as ordinary code through hook H3 and meet the same obligations."},
})
for k in CLAIMS: NA.pop(k, None)

CLAIMS.update({
 "C06": {"level": "model_checking", "ref": "DESIGN.md §6 C06",
         "text": "size_bytes_checked(message view / group view, n) on malloc(n) with n symbolic in 0..NMAX and every byte symbolic (all truncation points and all corruptions at once): no access outside the allocation (every load and H1 touch tested with __CPROVER_r_ok), valid <=> the structure fits (validate-before-read reference walker), exact size, and bounded work (unwinding assertions, n+2). Two harness variants: structure (counts <= 3, larger buffer) and hostile counts (unconstrained numInGroup, small buffer). Three open known findings (F6a/F6b/F6c) are excluded by input class and re-derived by twins."},
 "C17": {"level": "translation_validation", "ref": "DESIGN.md §6 C17",
         "text": "fill_message_header / fill_group_header for five header-layout schemas (reordered members, custom offsets + gaps + extra members, mixed integer widths, numGroups/numVarDataFields counters, ref-typed members) and the message schemas: from an arbitrary prior image, exactly the schema's identifying values (and the numInGroup argument over its whole range) are written at the model's member offsets in the schema byte order, every other byte is unchanged, and the returned view is that header."},
})
for k in CLAIMS: NA.pop(k, None)

CLAIMS.update({
 "C10": {"level": "model_checking", "ref": "DESIGN.md §6 C10",
         "text": "Checked build: for a view bound to malloc(n), every n from 0 to the full image size (symbolic) and symbolic image bytes, each accessor kind (field get/set, array element/raw()/strlen, cursor calls of all five kinds at the required position, group size/header/entry/resize/fill header, data size/bytes/resize/store, size_bytes, fill_message_header, cursor-based size) either invokes the assertion handler or performs no access outside the allocation (every load/store/memcpy/H1 touch tested with __CPROVER_r_ok/w_ok); and with the whole image inside the buffer the handler is never invoked."},
 "C19": {"level": "translation_validation", "ref": "DESIGN.md §6 C19",
         "text": "A recording visitor that returns true at the k-th callback (k symbolic) is run through visit_children / visit on mutable and const views: the event log equals the model's event sequence (each non-constant member once, schema order, own tag, accessor value/view, entries in order, composite children), visiting stops right after callback k, and after a complete visit the cursor is at the end of the view; enum visit yields the value tag or unknown tag for every underlying value; get_by_tag/set_by_tag meet the same reference obligations as the named accessors (C02/C01)."},
 "C20": {"level": "other", "ref": "DESIGN.md §6 C20",
         "text": "PARTIAL (I/O half only): fs_provider::write_file and create_directories, lowered with exceptions, against nondeterministic libstdc++ stubs: for every failure pattern of open / write / close / mkdir, a failure makes the call throw sbe_error and no failure makes it return normally with the data written and the stream closed. The determinism half and schema_compiler's use of the provider are not encoded (see level_note).",
         "note": "C20 is claimed only for the fs_provider seam; stubs are part of the claim and listed in the evidence. "},
})
for k in CLAIMS: NA.pop(k, None)

CLAIMS.update({
 "C08": {"level": "other", "ref": "DESIGN.md §6 C08",
         "text": "PARTIAL. K1: sbe_schema_validator::value_fits_into_type -> string_to_number<T> -> libstdc++ from_chars (real code through hook H2) accepts exactly the decimal literals representable in each of the 9 integer primitive types, for all byte strings up to maxdigits+2 bytes. K3: every boundary-valid / one-edit-invalid schema that the rebuilt sbeppc accepts is layout-sound on its generated code (pairwise non-interference and containment of all members, choice bits inside the width); rejected twins are recorded (exit status + located diagnostic) as observations. K1-FP: float/double literals against a contract stub of strtof/strtod. K4: is_sbe_symbolic_name accepts exactly [A-Za-z_][A-Za-z0-9_]* for all byte strings up to 6 (9 thorough) bytes. K5: utils::get_valid_offset rejects exactly custom offset < minimum, for all offset values. K7: parse_value_ref splits at the first dot for all strings. Reference/cycle/kind rules, keyword/duplicate-name rules and XML-level checks are not encoded.",
         "note": "C08 is claimed for the representability, name and offset kernels and the accepted-implies-sound direction only. "},
 "C11": {"level": "other", "ref": "DESIGN.md §6 C11",
         "text": "PARTIAL. Solver half: every getter / observer and every cursor getter (five kinds, const-byte cursor) on views with const byte type returns the reference value and leaves every byte of a symbolic buffer unchanged (visiting on const views: C19 visitcc; the 'never writes' frame assertion is also part of every C02/C04/C06/C19 harness). Type-level half is decided by the clang front end while lowering (generated static_asserts with positive controls + negative compile probes), recorded as observations, not as solver verdicts.",
         "note": "C11's compile-time half is not a solver verdict. "},
})
for k in CLAIMS: NA.pop(k, None)
