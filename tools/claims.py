HOOK_COMMITS = ["a4ec548"]
PENDING = "check under construction in this session (claimed once its harnesses exist); not yet decided"
NA = {
 "C07": "the deciding event is a C++ compiler accepting sbeppc's textual output; there is no value to make symbolic and the producer (std::string/fmt/variant/unordered_map code driven by pugixml) cannot be lowered through the IR->C translator",
 "C09": "whole-program totality over unbounded input through pugixml (binary-only here) and heap/exception-heavy C++17; neither cbmc's C++ front end nor the translator can encode std::string/unordered_map/variant faithfully",
 "C18": "every trait is a compile-time constant or type alias; the only quantifier is 'all schemas', which this technique can only enumerate -- a solver query over zero variables is a unit test in disguise (size_bytes traits are decided under C05, min/max/null under C16)",
}
for p in ["C01","C02","C03","C04","C05","C06","C08","C10","C11","C12","C13","C14","C17","C19","C20"]:
    NA.setdefault(p, PENDING)
CLAIMS = {
 "C15": {"level": "model_checking", "ref": "DESIGN.md §6 C15",
         "text": "Bounded symbolic check (cbmc) of the real bitset_base<T> and of the sbeppc-generated choice accessors: for every underlying value, every choice index < width (symbolic in the kernel harness) and both bool values, getter == bit n and setter changes only bit n; ==/!=, raw access, get_by_tag/set_by_tag, visit and visit_set agree. Four widths; C++17/20 quick, C++11/14/17/20/2b thorough."},
 "C16": {"level": "model_checking", "ref": "DESIGN.md §6 C16",
         "text": "Bounded symbolic check (cbmc, IEEE float model) of required_base/optional_base as instantiated by the 22 built-in types and by 46 sbeppc-generated types (with/without explicit min/max/null, NaN/INF nulls): for ALL pairs of underlying bit patterns, ==,!=,<,<=,>,>=, has_value, bool, value_or, in_range, default/nullopt construction equal the reference definition; min/max/null constants equal the SBE table resp. the XML values. C++17 (hand-written operators) and C++20 (operator<=>) are separate IR."},
}
for k in CLAIMS: NA.pop(k, None)
