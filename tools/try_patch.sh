#!/bin/bash
# usage: try_patch.sh <patch.diff> <PID>... : applies the patch to /repo, runs the quick checks, and reverts. never commits.
P=$1; shift
cd /repo || exit 2
[ -z "$(git status --porcelain --untracked-files=no)" ] || { echo "/repo not clean"; exit 2; }
git apply "$P" 2>/dev/null || patch -p1 -s --no-backup-if-mismatch < "$P" || { echo "patch does not apply"; git checkout -- .; exit 2; }
for pid in "$@"; do
  (cd /verif && ./check $pid --tier ${TIER:-quick} 2>&1 | grep -E "^(VIOLATION|KNOWN|ERROR|C[0-9]+ tier)" | cut -c1-220; echo "exit=${PIPESTATUS[0]}")
done
git checkout -- . ; git status --porcelain --untracked-files=no
