#!/bin/bash
# usage: tools/detect_patch.sh <name> <patch.diff> <check ids...>
# applies the patch to a FRESH scratch worktree of /repo HEAD (never to /repo itself), runs the quick (TIER=thorough: thorough) checks against it
# through VERIF_REPO, prints one line per check and removes the worktree. Evidence files under /verif/evidence are rewritten by these runs: re-run the
# checks on the unchanged tree before committing evidence.
name=$1; patch=$2; shift; shift
root=${SCRATCH:-/tmp/mut}; mkdir -p $root
wt=$root/app_$name
git -C /repo worktree remove --force $wt 2>/dev/null; rm -rf $wt
git -C /repo worktree add --detach $wt HEAD -q || exit 2
(cd $wt && (git apply "$patch" 2>/dev/null || patch -p1 -s --no-backup-if-mismatch < "$patch")) || { echo "mutant=$name patch does not apply"; git -C /repo worktree remove --force $wt; exit 2; }
for pid in "$@"; do
  ( cd /verif && VERIF_REPO=$wt ./check $pid --tier ${TIER:-quick} > $root/d2_${name}_$pid.log 2>&1; echo "mutant=$name check=$pid exit=$? :: $(grep -c '^VIOLATION' $root/d2_${name}_$pid.log) violations :: $(tail -1 $root/d2_${name}_$pid.log | cut -c1-150)" )
done
git -C /repo worktree remove --force $wt
